"""Reference evaluators written from the RFC texts: JSON Pointer (RFC 6901), JSON Patch (RFC 6902),
JSON Merge Patch (RFC 7396), over the JV model (objects as ordered member lists with distinct keys)."""
import copy
import re

from . import model

INDEX_RE = re.compile(rb"\A(0|[1-9][0-9]*)\Z")   # \Z, not $: "$" also matches before a trailing newline


class PointerError(Exception):
    pass


class PatchError(Exception):
    pass


# ------------------------------------------------------------------ RFC 6901
def ptr_tokens(p):
    """pointer string (bytes) -> list of decoded reference tokens; PointerError if not a JSON Pointer"""
    if p == b"":
        return []
    if p[:1] != b"/":
        raise PointerError("does not start with '/'")
    out = []
    for raw in p[1:].split(b"/"):
        tok = bytearray()
        i = 0
        while i < len(raw):
            c = raw[i]
            if c == 0x7E:
                if i + 1 >= len(raw) or raw[i + 1] not in (0x30, 0x31):
                    raise PointerError("invalid ~ escape")
                tok.append(0x7E if raw[i + 1] == 0x30 else 0x2F)
                i += 2
            else:
                tok.append(c)
                i += 1
        out.append(bytes(tok))
    return out


def ptr_escape(token):
    return token.replace(b"~", b"~0").replace(b"/", b"~1")


def ptr_build(tokens):
    return b"".join(b"/" + ptr_escape(t) for t in tokens)


def step(node, token):
    """one reference token applied to a JV node; returns (child index, child) or raises PointerError"""
    if node[0] == "O":
        for i, (k, v) in enumerate(node[1]):
            if k == token:
                return i, v
        raise PointerError("no such member")
    if node[0] == "A":
        if not INDEX_RE.match(token):
            raise PointerError("not an array index")
        idx = int(token)
        if idx >= len(node[1]):
            raise PointerError("index out of range")
        return idx, node[1][idx]
    raise PointerError("not a container")


def resolve_path(doc, pointer):
    """returns the position path (list of child indices) of the node the pointer designates"""
    path = []
    node = doc
    for tok in ptr_tokens(pointer):
        i, node = step(node, tok)
        path.append(i)
    return path


def node_at(doc, path):
    node = doc
    for i in path:
        node = node[1][i] if node[0] == "A" else node[1][i][1]
    return node


def pointer_of(doc, path):
    """the (escaped) pointer from the root to the node at position path"""
    node = doc
    toks = []
    for i in path:
        if node[0] == "A":
            toks.append(b"%d" % i)
            node = node[1][i]
        else:
            toks.append(node[1][i][0])
            node = node[1][i][1]
    return ptr_build(toks)


def all_paths(doc, path=()):
    yield list(path)
    if doc[0] == "A":
        for i, ch in enumerate(doc[1]):
            for p in all_paths(ch, path + (i,)):
                yield p
    elif doc[0] == "O":
        for i, (_, ch) in enumerate(doc[1]):
            for p in all_paths(ch, path + (i,)):
                yield p


# ------------------------------------------------------------------ RFC 6902
def _member(op, name):
    """value of member `name` of an operation object, or None"""
    for k, v in op[1]:
        if k == name:
            return v
    return None


def _string_member(op, name):
    v = _member(op, name)
    if v is None:
        raise PatchError("missing member %s" % name.decode())
    if v[0] != "S":
        raise PatchError("member %s is not a string" % name.decode())
    return v[1]


def _locate_parent(doc, tokens):
    node = doc
    for tok in tokens[:-1]:
        try:
            _, node = step(node, tok)
        except PointerError as e:
            raise PatchError("parent not found: %s" % e)
    return node


def _get(doc, pointer):
    try:
        return node_at(doc, resolve_path(doc, pointer))
    except PointerError as e:
        raise PatchError("target not found: %s" % e)


def _add(doc, pointer, value):
    try:
        tokens = ptr_tokens(pointer)
    except PointerError as e:
        raise PatchError(str(e))
    if not tokens:
        return value
    parent = _locate_parent(doc, tokens)
    last = tokens[-1]
    if parent[0] == "A":
        if last == b"-":
            parent[1].append(value)
        else:
            if not INDEX_RE.match(last):
                raise PatchError("bad array index")
            idx = int(last)
            if idx > len(parent[1]):
                raise PatchError("index beyond the end")
            parent[1].insert(idx, value)
    elif parent[0] == "O":
        for m in parent[1]:
            if m[0] == last:
                m[1] = value
                break
        else:
            parent[1].append([last, value])
    else:
        raise PatchError("parent is not a container")
    return doc


def _remove(doc, pointer):
    """returns (doc, removed value)"""
    try:
        tokens = ptr_tokens(pointer)
    except PointerError as e:
        raise PatchError(str(e))
    if not tokens:
        raise PatchError("remove of the whole document")
    parent = _locate_parent(doc, tokens)
    try:
        i, v = step(parent, tokens[-1])
    except PointerError as e:
        raise PatchError("target not found: %s" % e)
    del parent[1][i]
    return doc, v


def patch_apply(doc, patch):
    """RFC 6902 evaluation; returns the new document or raises PatchError"""
    doc = copy.deepcopy(doc)
    if patch[0] != "A":
        raise PatchError("patch is not an array")
    for op in patch[1]:
        if op[0] != "O":
            raise PatchError("operation is not an object")
        # the library checks 'path' before 'op'; the order of error detection does not matter for the verdict
        name = _string_member(op, b"op")
        path = _string_member(op, b"path")
        if name == b"add":
            v = _member(op, b"value")
            if v is None:
                raise PatchError("missing value")
            doc = _add(doc, path, copy.deepcopy(v))
        elif name == b"remove":
            doc, _ = _remove(doc, path)
        elif name == b"replace":
            v = _member(op, b"value")
            if v is None:
                raise PatchError("missing value")
            try:
                tokens = ptr_tokens(path)
            except PointerError as e:
                raise PatchError(str(e))
            if not tokens:
                doc = copy.deepcopy(v)
            else:
                _get(doc, path)
                doc, _ = _remove(doc, path)
                doc = _add(doc, path, copy.deepcopy(v))
        elif name == b"move":
            frm = _string_member(op, b"from")
            try:
                ft, pt = ptr_tokens(frm), ptr_tokens(path)
            except PointerError as e:
                raise PatchError(str(e))
            _get(doc, frm)
            if len(ft) < len(pt) and pt[:len(ft)] == ft:
                raise PatchError("move into own child")
            if ft == pt:
                continue
            if not ft:
                raise PatchError("move of the whole document into itself")
            doc, v = _remove(doc, frm)
            doc = _add(doc, path, v)
        elif name == b"copy":
            frm = _string_member(op, b"from")
            v = copy.deepcopy(_get(doc, frm))
            doc = _add(doc, path, v)
        elif name == b"test":
            v = _member(op, b"value")
            if v is None:
                raise PatchError("missing value")
            if not model.eq_set(_get(doc, path), v, True):
                raise PatchError("test failed")
        else:
            raise PatchError("unknown op")
    return doc


# ------------------------------------------------------------------ RFC 7396
def merge_apply(target, patch):
    if patch[0] != "O":
        return copy.deepcopy(patch)
    if target is None or target[0] != "O":
        target = ["O", []]
    else:
        target = ["O", [[k, v] for k, v in target[1]]]
    for k, v in patch[1]:
        idx = next((i for i, m in enumerate(target[1]) if m[0] == k), None)
        if v[0] == "n":
            if idx is not None:
                del target[1][idx]
        else:
            cur = target[1][idx][1] if idx is not None else None
            nv = merge_apply(cur, v)
            if idx is not None:
                target[1][idx] = [k, nv]
            else:
                target[1].append([k, nv])
    return target


def has_null_member(jv):
    """a null value as an object member at any depth (such documents cannot be targets of a merge patch)"""
    if jv[0] == "O":
        return any(v[0] == "n" or has_null_member(v) for _, v in jv[1])
    if jv[0] == "A":
        return any(has_null_member(v) for v in jv[1])
    return False
