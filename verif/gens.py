"""Shared Hypothesis generators (DESIGN.md section 2)."""
import math
import struct

from hypothesis import strategies as st

from . import model

def chance(n):
    """True with probability 1/n"""
    return st.sampled_from([False] * (n - 1) + [True])


def weighted(*pairs):
    """weighted(( w1, s1 ), ( w2, s2 ), ...): draws from s_i with probability w_i / sum(w).  (Repeating a strategy inside
    one_of() does not weight it reliably; an explicit integer draw does, and it shrinks toward the first strategy.)"""
    total = sum(w for w, _ in pairs)

    def pick(k):
        # Hypothesis draws the end points of an integer range more often than the rest: rotate them into the first
        # (by convention the heaviest) strategy
        k = (k + total // 2) % total
        for w, s in pairs:
            if k < w:
                return s
            k -= w
        return pairs[-1][1]
    return st.integers(0, total - 1).flatmap(pick)


# ------------------------------------------------------------------ code points / strings
SPECIAL_CPS = [0x22, 0x5C, 0x2F, 0x08, 0x0C, 0x0A, 0x0D, 0x09, 0x7F, 0x20, 0x01, 0x1F,
               0x80, 0x7FF, 0x800, 0xFFFF, 0xFFFE, 0xD7FF, 0xE000, 0xFDD0, 0x10000, 0x10FFFF, 0x1F600,
               0x2028, 0x2029, 0xFEFF, 0xFF, 0x100]


def codepoints():
    return st.one_of(
        st.integers(0x20, 0x7E),
        st.sampled_from(SPECIAL_CPS),
        st.integers(0x01, 0x1F),
        st.integers(0x80, 0x7FF),
        st.one_of(st.integers(0x800, 0xD7FF), st.integers(0xE000, 0xFFFF)),
        st.integers(0x10000, 0x10FFFF),
    )


def utf8_strings(max_size=12):
    """valid UTF-8 byte strings without U+0000"""
    return st.lists(codepoints(), max_size=max_size).map(lambda cps: "".join(chr(c) for c in cps).encode("utf-8"))


LONG_PATTERNS = [b"a", b"\xc3\xa9", b"\"\\", b"\n", b"\xf0\x9f\x98\x80", b"ab\t", b"\x01", b"/", b"\xe2\x80\xa8x", b"\x7f\""]
LONG_LENGTHS = [31, 32, 33, 63, 64, 65, 255, 256, 257, 1000, 4095, 4096, 4097, 20000, 70000]


def long_strings():
    """valid UTF-8 strings far longer than any fixed scratch buffer: one pattern (plain, escape-needing, 2/3/4-byte) repeated"""
    return st.tuples(st.sampled_from(LONG_PATTERNS), st.sampled_from(LONG_LENGTHS)).map(lambda t: t[0] * max(1, t[1] // len(t[0])))


def long_string_documents(small):
    """a small document next to / below one long string or long key"""
    return st.tuples(long_strings(), small, st.integers(0, 3)).map(
        lambda t: [["A", [["S", t[0]], t[1]]], ["O", [[t[0], t[1]]]], ["O", [[b"k", ["S", t[0]]], [b"after", t[1]]]], ["A", [t[1], ["A", [["S", t[0]]]]]]][t[2]])


def with_long(strings, share=40):
    """strings, one in `share` of which is a long one"""
    return weighted((share - 1, strings), (1, long_strings()))


def ascii_keys(max_size=6):
    return st.lists(st.sampled_from(list(b"abABkK01_-/~ ")), max_size=max_size).map(bytes)


def byte_strings(max_size=16):
    """arbitrary non-zero bytes (invalid UTF-8 included)"""
    return st.one_of(
        utf8_strings(max_size),
        st.lists(st.integers(1, 255), max_size=max_size).map(bytes),
        st.lists(st.sampled_from([0x22, 0x5C, 0x2F, 0x08, 0x0C, 0x0A, 0x0D, 0x09, 0x1F, 0x7F, 0x80, 0xC0, 0xFF, 0xED, 0xA0, 0x61]),
                 max_size=max_size).map(bytes),
    )


# ------------------------------------------------------------------ numbers
BOUNDARY_LITERALS = [
    "0", "-0", "0.0", "-0.0", "0e0", "0E+0", "0e-0", "1", "-1", "10", "1e0", "1E1", "1e+1", "1e-1",
    "2147483647", "2147483648", "2147483646", "-2147483648", "-2147483649", "-2147483647",
    "2147483647.5", "-2147483648.5", "2147483646.999999", "4294967296", "9007199254740992",
    "9007199254740993", "9007199254740991", "-9007199254740993", "1e15", "999999999999999", "1e16",
    "123456789012345678901234567890", "0.1", "0.2", "0.30000000000000004", "1.5", "-1.5", "0.5", "1e22", "1e23",
    "1.7976931348623157e308", "1.7976931348623158e308", "1.7976931348623159e308", "1e308", "1e309", "-1e309",
    "2e308", "4.9e-324", "5e-324", "2.4e-324", "2.5e-324", "2.4703282292062327e-324", "2.4703282292062328e-324",
    "1e-400", "-1e-400", "2.2250738585072014e-308", "2.2250738585072011e-308", "2.2250738585072009e-308",
    "1.00000000000000011102230246251565404236316680908203125",
    "1.00000000000000011102230246251565404236316680908203124",
    "1.00000000000000011102230246251565404236316680908203126",
    "0.000000000000000000000000000000000000000000000000000000000001",
    "100000000000000000000000000000000000000000000000000000000000000",
    "0.99999999999999999999999999999999999999999999999999999999999",
    "1e00000000000000000000000000000000000000000000000000000000002",
    "0.1e1", "12345.6789e-3", "1E400", "1e-323", "3.14159", "6.02214076e23", "-273.15",
    "99999999999999999999", "0.000001", "1e-7", "123456789012345.6", "0.1234567890123456789",
    # a hair below / above an integer (the integer view truncates toward zero, it does not round)
    "2.9999999999", "-0.9999999999999999", "41.99999999999999", "0.99999999999", "2147483646.9999999", "-2147483647.9999999",
    "3.0000000001", "-5.00000000001", "0.9999999999999999", "1.0000000000000002", "99.999999999999", "-99.999999999999",
    "2147483647.0000001", "999999999.9999999", "7.999999999e0", "79999999999e-10",
]


@st.composite
def number_literals(draw):
    """RFC 8259 number literals of at most 63 characters"""
    kind = draw(st.integers(0, 9))
    if kind <= 1:
        return draw(st.sampled_from(BOUNDARY_LITERALS))
    sign = draw(st.sampled_from(["", "", "-"]))
    if draw(st.integers(0, 4)) == 0:
        ip = "0"
    else:
        nd = draw(st.integers(1, 20 if kind < 8 else 40))
        ip = str(draw(st.integers(1, 9))) + "".join(str(d) for d in draw(st.lists(st.integers(0, 9), min_size=nd - 1, max_size=nd - 1)))
    frac = ""
    if draw(st.booleans()):
        nf = draw(st.integers(1, 20))
        frac = "." + "".join(str(d) for d in draw(st.lists(st.integers(0, 9), min_size=nf, max_size=nf)))
    exp = ""
    if draw(st.integers(0, 2)) == 0:
        e = draw(st.one_of(st.integers(-30, 30), st.integers(-330, 310), st.sampled_from([308, 309, -323, -324, -325, 0, 15, 16, 22, 23])))
        exp = draw(st.sampled_from(["e", "E"])) + draw(st.sampled_from(["", "+"]) if e >= 0 else st.just("")) + str(e)
        if draw(st.integers(0, 9)) == 0:
            # leading zeros in the exponent are allowed by the RFC grammar
            exp = exp[0] + exp[1:].replace(str(abs(e)), "00" + str(abs(e)), 1)
    lit = sign + ip + frac + exp
    if len(lit) > 63:
        lit = lit[:63]
        # keep it a valid literal: strip trailing characters that cannot end a number
        while not lit[-1].isdigit():
            lit = lit[:-1]
    return lit


def _bits_to_double(n):
    return struct.unpack(">d", n.to_bytes(8, "big"))[0]


DBL_MAX = 1.7976931348623157e308
DBL_MIN = 2.2250738585072014e-308

BOUNDARY_DOUBLES = [0.0, -0.0, 1.0, -1.0, 0.5, 0.1, 0.2, 0.3, 1.5, 1e15, 1e15 - 1, 1e15 + 2, 1e16, 1e17, 1e21, 1e22, 1e23,
                    2147483647.0, 2147483648.0, -2147483648.0, -2147483649.0, 2147483647.5, 4294967296.0,
                    9007199254740992.0, 9007199254740993.0, 9007199254740991.0, 123456789012345.0, 999999999999999.0,
                    5e-324, 1e-323, DBL_MIN, 2.225073858507201e-308, 1e-7, 1e-6, 1e-5, 0.0001, 123456.789, 3.141592653589793,
                    0.30000000000000004, 1.0000000000000002, 0.9999999999999999, 1e308, 1e-308, 1e100, 1.7e308,
                    1.0 / 3.0, 2.0 / 3.0, 100.0, 1e2, 1e10, 12345678.9, 0.1 + 0.7, 4.35, 2.675, 1.005]


def finite_doubles(exclude_top=True):
    """doubles for printing: random bit patterns, boundary pool, integers, short decimals, ulp neighbours.
    exclude_top: leave out the bucket of doubles that 15 significant digits round up past DBL_MAX
    (known region, see KNOWN_FINDINGS / DESIGN.md D1); those are generated by a dedicated class."""
    def fix(d):
        if d != d or math.isinf(d):
            return 1.0
        return d
    base = st.one_of(
        st.integers(0, 2 ** 64 - 1).map(_bits_to_double).map(fix),
        st.sampled_from(BOUNDARY_DOUBLES),
        st.integers(-10 ** 6, 10 ** 6).map(float),
        st.integers(-10 ** 15, 10 ** 15).map(float),
        st.one_of(st.integers(-2 ** 31 - 3, -2 ** 31 + 3), st.integers(2 ** 31 - 3, 2 ** 31 + 3)).map(float),
        st.tuples(st.integers(-10 ** 6, 10 ** 6), st.integers(0, 6)).map(lambda t: t[0] / (10.0 ** t[1])),
        st.tuples(st.integers(-30, 30), st.integers(-3, 3)).map(lambda t: _nudge(10.0 ** t[0], t[1])),
        st.tuples(st.integers(-300, 300), st.integers(-3, 3)).map(lambda t: _nudge(10.0 ** t[0], t[1])),
        st.floats(allow_nan=False, allow_infinity=False),
        st.floats(min_value=-1e6, max_value=1e6, allow_nan=False),
    )
    return base


def _nudge(d, k):
    for _ in range(abs(k)):
        d = math.nextafter(d, math.inf if k > 0 else -math.inf)
    return d


def top_doubles():
    """DBL_MAX and its predecessors (and negatives)"""
    return st.tuples(st.integers(0, 80), st.booleans()).map(lambda t: (-1 if t[1] else 1) * _nudge(DBL_MAX, -t[0]))


# ------------------------------------------------------------------ documents
def scalars_text(strings=None, numbers=None):
    """leaves for documents that are rendered as text (numbers are literals)"""
    strings = strings or utf8_strings()
    numbers = numbers or number_literals()
    return st.one_of(
        st.just(["n"]), st.just(["t"]), st.just(["f"]),
        numbers.map(lambda l: ["L", l]),
        strings.map(lambda b: ["S", b]),
    )


def scalars_built(strings=None, numbers=None):
    """leaves for trees that are built with the construction API (numbers are doubles)"""
    strings = strings or byte_strings()
    numbers = numbers or finite_doubles()
    return st.one_of(
        st.just(["n"]), st.just(["t"]), st.just(["f"]),
        numbers.map(lambda d: ["N", d]),
        strings.map(lambda b: ["S", b]),
    )


def documents(leaves, keys, max_leaves=20, max_width=6, unique_keys=False, fold_unique=False):
    def members(children):
        m = st.lists(st.tuples(keys, children).map(list), max_size=max_width)
        if unique_keys:
            def uniq(lst):
                seen = set()
                out = []
                for k, v in lst:
                    kk = model.fold(k) if fold_unique else k
                    if kk in seen:
                        continue
                    seen.add(kk)
                    out.append([k, v])
                return out
            m = m.map(uniq)
        return m
    return st.recursive(
        leaves,
        lambda ch: st.one_of(
            st.lists(ch, max_size=max_width).map(lambda l: ["A", l]),
            members(ch).map(lambda l: ["O", l]),
        ),
        max_leaves=max_leaves,
    )


def deep_chains(limit, leaves, offsets=(-1, 0)):
    """nested single-child containers up to exactly the nesting limit"""
    return st.tuples(st.sampled_from(["[", "{", "[{", "{[", "[[{"]),
                     st.sampled_from([limit + o for o in offsets]),
                     leaves).map(lambda t: ["D", t[0], t[1], t[2]])


def _assemble(leaves, keypool, seed, unique_keys, fold_unique):
    import random
    rnd = random.Random(seed)
    nodes = list(leaves)

    def wrap(group):
        if rnd.random() < 0.5:
            return ["A", group]
        members = []
        seen = set()
        for ch in group:
            k = rnd.choice(keypool)
            kk = model.fold(k) if fold_unique else k
            if unique_keys and kk in seen:
                # derive a distinct key deterministically
                i = 0
                while kk in seen:
                    i += 1
                    k2 = k + b"%d" % i
                    kk = model.fold(k2) if fold_unique else k2
                k = k + b"%d" % i
            seen.add(kk)
            members.append([k, ch])
        return ["O", members]

    if rnd.random() < 0.15:
        nodes.insert(rnd.randrange(len(nodes) + 1), ["A", []])
    if rnd.random() < 0.15:
        nodes.insert(rnd.randrange(len(nodes) + 1), ["O", []])
    while len(nodes) > 1:
        g = rnd.randint(1, min(5, len(nodes)))
        p = rnd.randint(0, len(nodes) - g)
        nodes[p:p + g] = [wrap(nodes[p:p + g])]
    root = nodes[0]
    if rnd.random() < 0.5 or root[0] not in "AO":
        root = wrap([root])
    return root


def shaped_documents(leaves, keys, max_leaves=16, unique_keys=False, fold_unique=False, min_leaves=1):
    """documents with a controlled size distribution: a list of leaves grouped into containers by a
    PRNG seeded from a drawn integer (Hypothesis' recursive() is heavily biased toward tiny trees)"""
    return st.tuples(st.lists(leaves, min_size=min_leaves, max_size=max_leaves),
                     st.lists(keys, min_size=1, max_size=6),
                     st.integers(0, 2 ** 32 - 1)).map(lambda t: _assemble(t[0], t[1], t[2], unique_keys, fold_unique))


ESCAPE_BYTES = [0x22, 0x5C, 0x2F, 0x08, 0x0C, 0x0A, 0x0D, 0x09, 0x01, 0x1F, 0x7F]


def escapey_strings(max_size=10):
    """byte strings dense in characters that need escaping"""
    return st.lists(st.one_of(st.sampled_from(ESCAPE_BYTES), st.integers(0x20, 0x7E)), min_size=1, max_size=max_size).map(bytes)


# byte sequences that look like UTF-8 but are not (overlong forms - C0 80 is "modified UTF-8" for U+0000 -, encoded surrogates,
# code points beyond U+10FFFF, 5/6-byte forms, truncated sequences, BOM and non-characters in the middle of a string)
ODD_SEQUENCES = [b"\xc0\x80", b"\xc1\xbf", b"\xe0\x80\x80", b"\xf0\x80\x80\x80", b"\xed\xa0\x80", b"\xed\xbf\xbf", b"\xf4\x90\x80\x80",
                 b"\xf8\x88\x80\x80\x80", b"\xfc\x84\x80\x80\x80\x80", b"\xfe\xff", b"\xff\xfe", b"\xef\xbb\xbf", b"\xef\xbf\xbe", b"\xc2", b"\xe2\x82",
                 b"\xf0\x9f\x98", b"\x80", b"\xbf\x80"]


def invalid_utf8_strings(max_size=10):
    return st.lists(st.one_of(st.sampled_from([0x80, 0xBF, 0xC0, 0xC1, 0xF5, 0xFF, 0xED, 0xA0, 0xE0, 0x9F, 0xF4, 0x90]).map(lambda c: bytes([c])),
                              st.integers(0x20, 0x7E).map(lambda c: bytes([c])),
                              st.sampled_from(ODD_SEQUENCES)),
                    min_size=1, max_size=max_size).map(b"".join)
