/* ctypes-facing helpers: parse with controlled buffer placement, and the exhaustive
 * inner sweeps (every prefix / every buffer length) that would be too slow from Python. */
#include <string.h>
#include <stdio.h>
#include <stdlib.h>
#include <limits.h>
#include <math.h>
#include <float.h>
#include "probe.h"
#include "cJSON_Utils.h"

typedef struct
{
    cJSON *tree;
    long end_off;  /* offset of *return_parse_end relative to the buffer, LONG_MIN if not requested */
    long err_off;  /* offset of cJSON_GetErrorPtr() relative to the buffer, LONG_MIN if NULL */
    int input_intact; /* the input bytes are unchanged after the call */
} parse_out_t;

#define NO_OFF LONG_MIN

/* entry: 0 cJSON_Parse, 1 cJSON_ParseWithOpts, 2 cJSON_ParseWithLength, 3 cJSON_ParseWithLengthOpts
 * bytes/n: the accessible buffer (for entries 0/1 the caller guarantees a zero byte inside it)
 * placement: 0 read-only guard buffer flush against PROT_NONE, 1 exact-size heap block */
void shim_parse(int entry, const unsigned char *bytes, size_t n, int placement, int require_nt, int want_end, parse_out_t *out)
{
    const unsigned char *buf;
    const char *end = (const char *)(uintptr_t)1;
    const char *err;
    unsigned char *heap = NULL;

    if (placement == 0)
    {
        buf = guard_ro(bytes, n);
    }
    else
    {
        heap = (unsigned char *)probe_malloc(n ? n : 1);
        /* n == 0: one-byte block, nothing of which may be read; ASan cannot express that, the guard placement can */
        if (n)
        {
            memcpy(heap, bytes, n);
        }
        buf = heap;
    }
    probe_stack_fill();
    switch (entry)
    {
        case 0:
            out->tree = cJSON_Parse((const char *)buf);
            want_end = 0;
            break;
        case 1:
            out->tree = cJSON_ParseWithOpts((const char *)buf, want_end ? &end : NULL, require_nt);
            break;
        case 2:
            out->tree = cJSON_ParseWithLength((const char *)buf, n);
            want_end = 0;
            break;
        default:
            out->tree = cJSON_ParseWithLengthOpts((const char *)buf, n, want_end ? &end : NULL, require_nt);
            break;
    }
    err = cJSON_GetErrorPtr();
    out->end_off = want_end ? (long)(end - (const char *)buf) : NO_OFF;
    if (want_end && end == (const char *)(uintptr_t)1)
    {
        out->end_off = NO_OFF + 1; /* requested but never stored */
    }
    out->err_off = (err != NULL) ? (long)(err - (const char *)buf) : NO_OFF;
    out->input_intact = (n == 0) || (memcmp(buf, bytes, n) == 0);
    if (placement == 0)
    {
        guard_release(buf);
    }
    else
    {
        probe_free(heap);
    }
}

/* ------------------------------------------------------------------ */
/* generic failure record for C sweeps */
typedef struct
{
    int code;          /* 0 = no violation */
    long a, b, c;      /* sweep specific coordinates */
    uint64_t iterations;
    uint64_t accepted;
    uint64_t nontrivial;
    char msg[160];
} sweep_out_t;

static void fail(sweep_out_t *o, int code, long a, long b, long c, const char *msg)
{
    if (o->code == 0)
    {
        o->code = code;
        o->a = a;
        o->b = b;
        o->c = c;
        strncpy(o->msg, msg, sizeof(o->msg) - 1);
    }
}

/* check a tree returned by a parser: walk, print both ways, delete; ledger must balance */
static int tree_ok(cJSON *t, uint64_t live_before, const char **why)
{
    size_t nodes = 0, depth = 0;
    unsigned fl = tree_walk(t, 1, 1, &nodes, &depth);
    char *p1;
    char *p2;
    if (fl != 0)
    {
        *why = "structural flag on parsed tree";
        return 0;
    }
    p1 = cJSON_PrintUnformatted(t);
    p2 = cJSON_Print(t);
    if (p1 == NULL || p2 == NULL)
    {
        *why = "print of parsed tree failed";
        return 0;
    }
    cJSON_free(p1);
    cJSON_free(p2);
    cJSON_Delete(t);
    if (ledger_live() != live_before)
    {
        *why = "ledger not balanced after delete";
        return 0;
    }
    return 1;
}

/* C01 (b): every prefix of text[0..n), x entry points x flags, on guard buffers; then
 * at positions pos = 0..n-1 step `stride` a replacement by each byte of `repl`.
 * Length variants get the prefix exactly; string variants get prefix + terminator
 * (the prefix is cut at its first zero byte by construction: texts contain none). */
void sweep_prefixes(const unsigned char *text, size_t n, const unsigned char *repl, size_t nrepl, size_t stride, sweep_out_t *o)
{
    size_t len;
    unsigned char *tmp = (unsigned char *)probe_malloc(n + 2);
    size_t variant;
    size_t nvariants = 1 + ((nrepl && stride) ? ((n + stride - 1) / stride) * nrepl : 0);
    memset(o, 0, sizeof(*o));
    for (variant = 0; variant < nvariants && o->code == 0; variant++)
    {
        size_t lo = 0, hi = n;
        memcpy(tmp, text, n);
        if (variant > 0)
        {
            size_t pos = ((variant - 1) / nrepl) * stride;
            tmp[pos] = repl[(variant - 1) % nrepl];
            /* edited variants: truncated right after the edit, and complete */
            lo = pos + 1;
        }
        for (len = lo; len <= hi && o->code == 0; len = (variant > 0 && len < hi) ? hi : len + 1)
        {
            int entry;
            for (entry = 0; entry < 4 && o->code == 0; entry++)
            {
                int flags;
                for (flags = 0; flags < ((entry == 1 || entry == 3) ? 4 : 1) && o->code == 0; flags++)
                {
                    parse_out_t po;
                    uint64_t live = ledger_live();
                    const char *why = "";
                    size_t blen = len;
                    unsigned char saved = 0;
                    int is_string = (entry < 2);
                    if (is_string)
                    {
                        size_t z;
                        /* cut at first zero, add terminator */
                        for (z = 0; z < len; z++)
                        {
                            if (tmp[z] == 0)
                            {
                                break;
                            }
                        }
                        blen = z + 1;
                        saved = tmp[z];
                        tmp[z] = 0;
                        shim_parse(entry, tmp, blen, 0, flags & 1, (flags >> 1) & 1, &po);
                        tmp[z] = saved;
                    }
                    else
                    {
                        shim_parse(entry, tmp, blen, 0, flags & 1, (flags >> 1) & 1, &po);
                    }
                    o->iterations++;
                    if (!po.input_intact)
                    {
                        fail(o, 1, (long)variant, (long)len, entry * 4 + flags, "input modified");
                    }
                    if (po.tree != NULL)
                    {
                        o->accepted++;
                        if (!tree_ok(po.tree, live, &why))
                        {
                            fail(o, 2, (long)variant, (long)len, entry * 4 + flags, why);
                        }
                    }
                    else if (ledger_live() != live)
                    {
                        fail(o, 3, (long)variant, (long)len, entry * 4 + flags, "rejected parse left allocations behind");
                    }
                }
            }
        }
    }
    probe_free(tmp);
}

/* C09: every n from 0 to L+extra, both placements.  `expect` is the text of the allocating printer. */
void sweep_prealloc(cJSON *tree, int fmt, const char *expect, size_t L, size_t extra, sweep_out_t *o)
{
    size_t n;
    int seen_true = 0;
    memset(o, 0, sizeof(*o));
    for (n = 0; n <= L + extra && o->code == 0; n++)
    {
        int placement;
        for (placement = 0; placement < 2 && o->code == 0; placement++)
        {
            unsigned char *buf;
            cJSON_bool r;
            if (placement == 0)
            {
                buf = guard_rw(NULL, n);
                memset(buf, 0xEE, n);
            }
            else
            {
                buf = (unsigned char *)probe_malloc(n ? n : 1);
                memset(buf, 0xEE, n ? n : 1);
            }
            r = cJSON_PrintPreallocated(tree, (char *)buf, (int)n, fmt);
            o->iterations++;
            if (n + 8 >= L + 1 && n <= L + 1 + 8)
            {
                o->nontrivial++;
            }
            if (placement == 0 && guard_check(buf) != 0)
            {
                fail(o, 1, (long)n, placement, 0, "canary before the buffer overwritten");
            }
            if (r)
            {
                o->accepted++;
                if (n < L + 1)
                {
                    fail(o, 2, (long)n, placement, 0, "returned true with a buffer shorter than text+terminator");
                }
                else if (memcmp(buf, expect, L + 1) != 0)
                {
                    fail(o, 3, (long)n, placement, 0, "returned true but buffer does not hold the complete terminated text");
                }
                seen_true = 1;
            }
            else
            {
                if (n >= L + 1 + 5)
                {
                    fail(o, 4, (long)n, placement, 0, "returned false although n >= text+terminator+5");
                }
                if (seen_true)
                {
                    fail(o, 5, (long)n, placement, 0, "success not monotone in n");
                }
            }
            if (placement == 0)
            {
                guard_release(buf);
            }
            else
            {
                probe_free(buf);
            }
        }
    }
}

/* C04 dense number sweep: single-number trees printed unformatted and re-parsed.
 * oracle: finite, within 2^-52 relative, exact for integers below 1e15, fixed point. */
static int number_roundtrip_ok(double x, char *why, size_t whylen)
{
    cJSON *n = cJSON_CreateNumber(x);
    char *t1;
    cJSON *back;
    char *t2;
    double y;
    int ok = 1;
    if (n == NULL)
    {
        snprintf(why, whylen, "create failed");
        return 0;
    }
    t1 = cJSON_PrintUnformatted(n);
    if (t1 == NULL)
    {
        cJSON_Delete(n);
        snprintf(why, whylen, "print failed");
        return 0;
    }
    back = cJSON_Parse(t1);
    if (back == NULL || !cJSON_IsNumber(back))
    {
        snprintf(why, whylen, "printed text %.40s does not parse back to a number", t1);
        ok = 0;
    }
    else
    {
        double ax = fabs(x), ay;
        y = back->valuedouble;
        ay = fabs(y);
        if (!(y - y == 0.0))
        {
            snprintf(why, whylen, "printed text %.40s re-parses as a non-finite number", t1);
            ok = 0;
        }
        else if (fabs(x - y) > ldexp(1.0, -52) * (ax > ay ? ax : ay))
        {
            snprintf(why, whylen, "printed text %.40s re-parses outside 2^-52 relative", t1);
            ok = 0;
        }
        else if (ax < 1e15 && x == floor(x) && x != y)
        {
            snprintf(why, whylen, "integer printed as %.40s re-parses to a different value", t1);
            ok = 0;
        }
        else
        {
            t2 = cJSON_PrintUnformatted(back);
            if (t2 == NULL || strcmp(t1, t2) != 0)
            {
                snprintf(why, whylen, "print(parse(T)) != T for T=%.40s", t1);
                ok = 0;
            }
            if (t2 != NULL)
            {
                cJSON_free(t2);
            }
        }
    }
    cJSON_Delete(back);
    cJSON_free(t1);
    cJSON_Delete(n);
    return ok;
}

/* values: array of doubles; for each also its `ulps` neighbours on both sides.
 * skip_lo/skip_hi: excluded closed interval of magnitudes (known finding), counted in accepted */
void sweep_numbers(const double *values, size_t count, int ulps, double skip_lo, double skip_hi, sweep_out_t *o, double *bad_value)
{
    size_t i;
    memset(o, 0, sizeof(*o));
    for (i = 0; i < count && o->code == 0; i++)
    {
        int k;
        for (k = -ulps; k <= ulps && o->code == 0; k++)
        {
            double x = values[i];
            int s;
            char why[160];
            for (s = 0; s < (k < 0 ? -k : k); s++)
            {
                x = nextafter(x, k < 0 ? -HUGE_VAL : HUGE_VAL);
            }
            if (!(x - x == 0.0))
            {
                continue;
            }
            if (fabs(x) >= skip_lo && fabs(x) <= skip_hi)
            {
                o->accepted++;
                continue;
            }
            o->iterations++;
            if (x != floor(x))
            {
                o->nontrivial++;
            }
            if (!number_roundtrip_ok(x, why, sizeof(why)))
            {
                fail(o, 1, (long)i, k, 0, why);
                *bad_value = x;
            }
        }
    }
}

/* helper for tests that need a node with a non-finite number without calling the
 * library with a NaN argument */
void shim_poke_number(cJSON *item, double d, int i)
{
    item->valuedouble = d;
    item->valueint = i;
}

void shim_poke_child(cJSON *item, cJSON *child) { item->child = child; }
void shim_poke_type(cJSON *item, int type) { item->type = type; }
cJSON *shim_next(const cJSON *item) { return item->next; }
cJSON *shim_prev(const cJSON *item) { return item->prev; }
cJSON *shim_child(const cJSON *item) { return item->child; }
int shim_type(const cJSON *item) { return item->type; }
const char *shim_key(const cJSON *item) { return item->string; }
const char *shim_valuestring(const cJSON *item) { return item->valuestring; }
double shim_valuedouble(const cJSON *item) { return item->valuedouble; }
int shim_valueint(const cJSON *item) { return item->valueint; }
int shim_nesting_limit(void) { return CJSON_NESTING_LIMIT; }
int shim_circular_limit(void)
{
#ifdef CJSON_CIRCULAR_LIMIT
    return CJSON_CIRCULAR_LIMIT;
#else
    return -1;
#endif
}
size_t shim_sizeof_cjson(void) { return sizeof(cJSON); }

/* macros of cJSON.h as functions */
double shim_set_number_value(cJSON *o, double d) { return cJSON_SetNumberValue(o, d); }
cJSON_bool shim_set_bool_value(cJSON *o, int b) { return cJSON_SetBoolValue(o, b); }
int shim_array_foreach_count(const cJSON *a, uintptr_t *out, size_t cap)
{
    const cJSON *e = NULL;
    size_t n = 0;
    cJSON_ArrayForEach(e, a)
    {
        if (n < cap)
        {
            out[n] = (uintptr_t)e;
        }
        n++;
        if (n > 10000000u)
        {
            break;
        }
    }
    return (int)n;
}

/* ------------------------------------------------------------------ */
/* C03 (c): all token sequences up to a length bound.  The recogniser decides the verdict. */
static const char *const TOKENS[] = {"[", "]", "{", "}", ",", ":", "\"k\"", "1", "true", "null", "-"};
#define NTOKENS 11

int sweep_token_count(void) { return NTOKENS; }

/* builds the text of sequence `code` (base-NTOKENS digits, most significant first, `len` tokens) */
size_t token_text(uint64_t code, int len, char *out)
{
    int digits[16];
    int i;
    size_t n = 0;
    for (i = len - 1; i >= 0; i--)
    {
        digits[i] = (int)(code % NTOKENS);
        code /= NTOKENS;
    }
    for (i = 0; i < len; i++)
    {
        size_t l = strlen(TOKENS[digits[i]]);
        memcpy(out + n, TOKENS[digits[i]], l);
        n += l;
    }
    out[n] = '\0';
    return n;
}

/* returns 0 ok; else failure code: 1 invalid accepted, 2 strict rejected, 3 leak, 4 structure */
static int token_case(const char *text, size_t n, int limit, int *cls_out, size_t *bad_out, uint64_t *parses)
{
    ref_result_t rc;
    int v;
    ref_classify((const unsigned char *)text, n, limit, &rc);
    *cls_out = rc.cls;
    *bad_out = rc.bad_offset;
    for (v = 0; v < 4; v++)
    {
        parse_out_t po;
        uint64_t live = ledger_live();
        const char *why;
        /* v0: length exact; v1: string variant; v2: length+terminator, termination required; v3: string, with end */
        switch (v)
        {
            case 0: shim_parse(2, (const unsigned char *)text, n, 0, 0, 0, &po); break;
            case 1: shim_parse(0, (const unsigned char *)text, n + 1, 1, 0, 0, &po); break;
            case 2: shim_parse(3, (const unsigned char *)text, n + 1, 0, 1, 1, &po); break;
            default: shim_parse(1, (const unsigned char *)text, n + 1, 0, 0, 1, &po); break;
        }
        (*parses)++;
        if (po.tree != NULL)
        {
            if (rc.cls == RC_INVALID)
            {
                cJSON_Delete(po.tree);
                return 1;
            }
            if (!tree_ok(po.tree, live, &why))
            {
                return 4;
            }
        }
        else
        {
            if (rc.cls == RC_STRICT && v != 2)
            {
                return 2;
            }
            if (ledger_live() != live)
            {
                return 3;
            }
        }
    }
    return 0;
}

void sweep_tokens(int maxlen, int part, int nparts, int limit, sweep_out_t *o)
{
    int len;
    uint64_t counter = 0;
    char text[128];
    memset(o, 0, sizeof(*o));
    for (len = 1; len <= maxlen && o->code == 0; len++)
    {
        uint64_t total = 1, code;
        int i;
        for (i = 0; i < len; i++)
        {
            total *= NTOKENS;
        }
        for (code = 0; code < total && o->code == 0; code++, counter++)
        {
            size_t n;
            int cls = 0, r;
            size_t bad = 0;
            if ((int)(counter % (uint64_t)nparts) != part)
            {
                continue;
            }
            n = token_text(code, len, text);
            r = token_case(text, n, limit, &cls, &bad, &o->iterations);
            if (cls == RC_INVALID && bad >= 1)
            {
                o->nontrivial++;
            }
            if (cls != RC_INVALID)
            {
                o->accepted++;
            }
            if (r != 0)
            {
                static const char *const why[] = {"", "token sequence outside the dialect was accepted", "strict token sequence was rejected",
                                                  "rejected token sequence left allocations behind", "accepted token sequence gives an unusable tree"};
                fail(o, r, (long)code, len, cls, why[r]);
            }
        }
    }
}

int token_case_replay(uint64_t code, int len, int limit)
{
    char text[128];
    int cls;
    size_t bad;
    uint64_t parses = 0;
    size_t n = token_text(code, len, text);
    return token_case(text, n, limit, &cls, &bad, &parses);
}

/* ------------------------------------------------------------------ */
/* C11 helpers: deep "spines" and cycles are handled iteratively (no recursion in the harness).
 * A spine is a chain of nested containers; at some levels scalar siblings precede the nested child. */
static const char *const CHAIN_CONST_KEY = "k";

cJSON *shim_make_chain(int containers, int pattern, int with_leaf, int sibling_every)
{
    /* pattern bit 3: members are added with a constant key (cJSON_AddItemToObjectCS) */
    cJSON *root = NULL;
    cJSON *cur = NULL;
    int i;
    for (i = 0; i < containers; i++)
    {
        int is_obj = (pattern >> (i % 3)) & 1;
        cJSON *n = is_obj ? cJSON_CreateObject() : cJSON_CreateArray();
        if (n == NULL)
        {
            cJSON_Delete(root);
            return NULL;
        }
        if (cur == NULL)
        {
            root = n;
        }
        else
        {
            if (sibling_every > 0 && (i % sibling_every) == 0)
            {
                if (cur->type == cJSON_Object)
                {
                    cJSON_AddItemToObject(cur, "s", cJSON_CreateString("sibling"));
                    cJSON_AddItemToObject(cur, "n", cJSON_CreateNumber(i));
                }
                else
                {
                    cJSON_AddItemToArray(cur, cJSON_CreateString("sibling"));
                    cJSON_AddItemToArray(cur, cJSON_CreateNumber(i));
                }
            }
            if ((cur->type & 0xFF) == cJSON_Object)
            {
                if (pattern & 8)
                {
                    cJSON_AddItemToObjectCS(cur, CHAIN_CONST_KEY, n);
                }
                else
                {
                    cJSON_AddItemToObject(cur, "k", n);
                }
            }
            else
            {
                cJSON_AddItemToArray(cur, n);
            }
        }
        cur = n;
    }
    if (with_leaf)
    {
        cJSON *leaf = cJSON_CreateNumber(1.5);
        if (cur == NULL)
        {
            return leaf;
        }
        if (cur->type == cJSON_Object)
        {
            cJSON_AddItemToObject(cur, "k", leaf);
        }
        else
        {
            cJSON_AddItemToArray(cur, leaf);
        }
    }
    return root;
}

/* the child through which the spine continues: the last sibling (bounded walk) */
static const cJSON *spine_down(const cJSON *n)
{
    const cJSON *c = n->child;
    int k = 0;
    while (c != NULL && c->next != NULL && k < 8)
    {
        c = c->next;
        k++;
    }
    return c;
}

long shim_chain_length(const cJSON *n, long bound)
{
    long k = 0;
    while (n != NULL && k < bound)
    {
        k++;
        n = spine_down(n);
    }
    return k;
}

static uint64_t hash_node(uint64_t h, const cJSON *n)
{
    const unsigned char *p = (const unsigned char *)n;
    size_t i;
    const char *s;
    for (i = 0; i < sizeof(cJSON); i++)
    {
        h ^= p[i];
        h *= 1099511628211ULL;
    }
    for (s = n->string; s != NULL && *s; s++)
    {
        h ^= (unsigned char)*s;
        h *= 1099511628211ULL;
    }
    for (s = n->valuestring; s != NULL && *s; s++)
    {
        h ^= (unsigned char)*s;
        h *= 1099511628211ULL;
    }
    return h;
}

/* hash of the node structs (and key/string bytes) of the spine and its siblings, bounded by `bound` levels */
uint64_t shim_chain_hash(const cJSON *n, long bound)
{
    uint64_t h = 1469598103934665603ULL;
    long k = 0;
    while (n != NULL && k < bound)
    {
        const cJSON *c;
        int j = 0;
        h = hash_node(h, n);
        for (c = n->child; c != NULL && j < 8; c = c->next, j++)
        {
            if (c->next != NULL)
            {
                h = hash_node(h, c);
            }
        }
        k++;
        n = spine_down(n);
    }
    return h;
}

static int node_equal_distinct(const cJSON *a, const cJSON *b)
{
    if ((a->type & 0xFF) != (b->type & 0xFF) || (b->type & cJSON_IsReference))
    {
        return 0;
    }
    if ((a->string == NULL) != (b->string == NULL) || (a->string && strcmp(a->string, b->string) != 0))
    {
        return 0;
    }
    if ((a->valuestring == NULL) != (b->valuestring == NULL) || (a->valuestring && strcmp(a->valuestring, b->valuestring) != 0))
    {
        return 0;
    }
    if (a == b || (a->string != NULL && a->string == b->string && !(a->type & cJSON_StringIsConst)) ||
        (a->valuestring != NULL && a->valuestring == b->valuestring))
    {
        return 0; /* shared memory */
    }
    if ((a->type & 0xFF) == cJSON_Number && a->valuedouble != b->valuedouble)
    {
        return 0;
    }
    return 1;
}

/* structural comparison of two spines without recursion; 1 if equal in types, keys, values, with healthy links in b */
int shim_chain_equal(const cJSON *a, const cJSON *b, long bound)
{
    long k = 0;
    if (a == NULL || b == NULL || b->next != NULL || b->prev != NULL)
    {
        return 0;
    }
    while (a != NULL && b != NULL && k < bound)
    {
        const cJSON *x = a->child;
        const cJSON *y = b->child;
        const cJSON *lastx = NULL, *lasty = NULL;
        int j = 0;
        if (!node_equal_distinct(a, b))
        {
            return 0;
        }
        while (x != NULL && y != NULL && j < 8)
        {
            if (x->next != NULL || y->next != NULL)
            {
                if (!node_equal_distinct(x, y))
                {
                    return 0;
                }
            }
            if (y->next != NULL && y->next->prev != y)
            {
                return 0;
            }
            lastx = x;
            lasty = y;
            x = x->next;
            y = y->next;
            j++;
        }
        if (x != NULL || y != NULL)
        {
            return 0;
        }
        if (b->child != NULL && b->child->prev != lasty)
        {
            return 0;
        }
        a = lastx;
        b = lasty;
        k++;
    }
    return a == NULL && b == NULL;
}

/* n-th node along the spine */
cJSON *shim_chain_node(cJSON *n, long index)
{
    while (n != NULL && index > 0)
    {
        n = (cJSON *)spine_down(n);
        index--;
    }
    return n;
}

/* ------------------------------------------------------------------ */
/* C02: exhaustive \uXXXX sweep.  For every BMP code point (except U+0000 and surrogates) and for the surrogate
 * pairs hi in [hi_lo,hi_hi) x all 1024 low surrogates: the escape, spelt with lower- or upper-case hex digits,
 * must decode to the UTF-8 bytes computed by the encoder below (written from RFC 3629). */
static size_t ref_utf8(unsigned long cp, unsigned char *out)
{
    if (cp < 0x80)
    {
        out[0] = (unsigned char)cp;
        return 1;
    }
    if (cp < 0x800)
    {
        out[0] = (unsigned char)(0xC0 | (cp >> 6));
        out[1] = (unsigned char)(0x80 | (cp & 0x3F));
        return 2;
    }
    if (cp < 0x10000)
    {
        out[0] = (unsigned char)(0xE0 | (cp >> 12));
        out[1] = (unsigned char)(0x80 | ((cp >> 6) & 0x3F));
        out[2] = (unsigned char)(0x80 | (cp & 0x3F));
        return 3;
    }
    out[0] = (unsigned char)(0xF0 | (cp >> 18));
    out[1] = (unsigned char)(0x80 | ((cp >> 12) & 0x3F));
    out[2] = (unsigned char)(0x80 | ((cp >> 6) & 0x3F));
    out[3] = (unsigned char)(0x80 | (cp & 0x3F));
    return 4;
}

static int escape_case(unsigned long cp, int upper, int as_key, sweep_out_t *o)
{
    char text[64];
    unsigned char want[8];
    size_t wl = ref_utf8(cp, want);
    cJSON *t;
    const char *got;
    const char *fmt1 = upper ? "\\u%04lX" : "\\u%04lx";
    char esc[32];
    want[wl] = 0;
    if (cp >= 0x10000)
    {
        unsigned long v = cp - 0x10000;
        char a[16], b[16];
        sprintf(a, fmt1, 0xD800 + (v >> 10));
        sprintf(b, upper ? "\\u%04lx" : "\\u%04lX", 0xDC00 + (v & 0x3FF)); /* mixed case across the pair */
        sprintf(esc, "%s%s", a, b);
    }
    else
    {
        sprintf(esc, fmt1, cp);
    }
    if (as_key)
    {
        sprintf(text, "{\"a%sz\":1}", esc);
    }
    else
    {
        sprintf(text, "[\"a%sz\"]", esc);
    }
    t = cJSON_ParseWithLength(text, strlen(text));
    o->iterations++;
    if (t == NULL || t->child == NULL)
    {
        cJSON_Delete(t);
        fail(o, 1, (long)cp, upper, as_key, "valid escape rejected");
        return 0;
    }
    got = as_key ? t->child->string : t->child->valuestring;
    if (got == NULL || got[0] != 'a' || memcmp(got + 1, want, wl) != 0 || got[1 + wl] != 'z' || got[2 + wl] != 0)
    {
        cJSON_Delete(t);
        fail(o, 2, (long)cp, upper, as_key, "escape decoded to the wrong bytes");
        return 0;
    }
    cJSON_Delete(t);
    return 1;
}

void sweep_unicode_escapes(int part, int nparts, int all_pairs, sweep_out_t *o)
{
    unsigned long cp;
    memset(o, 0, sizeof(*o));
    for (cp = 1; cp < 0x10000 && o->code == 0; cp++)
    {
        if (cp >= 0xD800 && cp <= 0xDFFF)
        {
            continue;
        }
        if ((int)(cp % (unsigned long)nparts) != part)
        {
            continue;
        }
        escape_case(cp, (int)(cp & 1), (int)((cp >> 1) & 1), o);
        escape_case(cp, !(cp & 1), !((cp >> 1) & 1), o);
        o->nontrivial++;
    }
    for (cp = 0x10000; cp < 0x110000 && o->code == 0; cp++)
    {
        if ((int)(cp % (unsigned long)nparts) != part)
        {
            continue;
        }
        /* quick tier: the boundaries of every high surrogate row plus a stride; thorough: every pair */
        if (!all_pairs)
        {
            unsigned long low = (cp - 0x10000) & 0x3FF;
            if (!(low == 0 || low == 0x3FF || low == 1 || ((cp * 2654435761UL) >> 7) % 16 == 0))
            {
                continue;
            }
        }
        escape_case(cp, (int)(cp & 1), (int)((cp >> 3) & 1), o);
        o->nontrivial++;
    }
}

/* ---------------------------------------------------------------------------------------------------------
 * C19: very large objects.  Builds an object of n members whose keys come in a chosen order, sorts it (directly or
 * through a utility that sorts internally), and checks natively: key order, member count, sibling chain and tail link,
 * that an append lands at the end and nothing is lost, and that a second sort changes nothing.  Returns 0 or a code
 * (message in msg).  A crash (stack exhaustion in a recursive sort) kills the worker and is triaged as a crash.
 *   order: 0 descending, 1 ascending, 2 pseudo-random, 3 all keys equal, 4 runs of two descending, 5 descending with duplicates,
 *          6 mixed case (k/K alternating), descending
 *   how:   0 cJSONUtils_SortObject[CaseSensitive], 1 patch 'test' on the whole document, 2 GeneratePatches, 3 GenerateMergePatch */
static int fold_cmp(const char *a, const char *b, int cs)
{
    if (cs)
    {
        return strcmp(a, b);
    }
    for (;; a++, b++)
    {
        int x = (unsigned char)*a;
        int y = (unsigned char)*b;
        if (x >= 'A' && x <= 'Z') x += 32;
        if (y >= 'A' && y <= 'Z') y += 32;
        if (x != y) return x < y ? -1 : 1;
        if (x == 0) return 0;
    }
}

static int big_chain_ok(const cJSON *obj, long expect, const char **why)
{
    const cJSON *c = obj->child;
    const cJSON *last = NULL;
    long count = 0;
    if (c == NULL)
    {
        if (expect != 0) { *why = "object lost all its members"; return 0; }
        return 1;
    }
    for (; c != NULL; c = c->next)
    {
        if (c->next != NULL && c->next->prev != c) { *why = "a backward link does not mirror its forward link"; return 0; }
        last = c;
        if (++count > expect + 8) { *why = "sibling chain longer than the member count (cycle?)"; return 0; }
    }
    if (count != expect) { *why = "member count changed"; return 0; }
    if (obj->child->prev != last) { *why = "the first member's backward link does not designate the last member"; return 0; }
    return 1;
}

int shim_big_sort(long n, int order, int cs, int how, char *msg, size_t msglen)
{
    cJSON *obj = cJSON_CreateObject();
    cJSON *other = NULL;
    cJSON *patch = NULL;
    const char *why = "";
    const cJSON *c;
    unsigned long x = 88172645463325252UL;
    long i;
    int rc = 0;
    char key[32];
    if (obj == NULL) { snprintf(msg, msglen, "harness: allocation"); return -1; }
    for (i = 0; i < n; i++)
    {
        long v;
        switch (order)
        {
            case 0: v = n - i; break;
            case 1: v = i; break;
            case 2: x ^= x << 13; x ^= x >> 7; x ^= x << 17; v = (long)(x % 100000000UL); break;
            case 3: v = 7; break;
            case 4: v = (i ^ 1); break;
            case 5: v = (n - i) / 3; break;
            default: v = n - i; break;
        }
        snprintf(key, sizeof(key), "%c%08ld", (order == 6 && (i & 1)) ? 'K' : 'k', v);
        if (!cJSON_AddItemToObject(obj, key, cJSON_CreateNumber((double)i))) { rc = -1; why = "harness: build"; goto done; }
    }
    if (how != 0)
    {
        other = cJSON_Duplicate(obj, 1);
        if (other == NULL && n <= 10000) { rc = -1; why = "harness: duplicate"; goto done; }
    }
    switch (how)
    {
        case 0:
            if (cs) cJSONUtils_SortObjectCaseSensitive(obj); else cJSONUtils_SortObject(obj);
            break;
        case 1:
        {
            cJSON *op = cJSON_CreateObject();
            int status;
            patch = cJSON_CreateArray();
            cJSON_AddStringToObject(op, "op", "test");
            cJSON_AddStringToObject(op, "path", "");
            cJSON_AddItemToObject(op, "value", other);
            other = NULL;
            cJSON_AddItemToArray(patch, op);
            status = cs ? cJSONUtils_ApplyPatchesCaseSensitive(obj, patch) : cJSONUtils_ApplyPatches(obj, patch);
            if (status != 0 && order != 3 && order != 5 && (cs || order != 6)) { rc = 10; why = "patch 'test' of a document against its own copy failed"; goto done; }
            break;
        }
        case 2:
            patch = cs ? cJSONUtils_GeneratePatchesCaseSensitive(obj, other) : cJSONUtils_GeneratePatches(obj, other);
            if (patch == NULL) { rc = 11; why = "GeneratePatches returned NULL"; goto done; }
            if (cJSON_GetArraySize(patch) != 0 && order != 3 && order != 5 && (cs || order != 6)) { rc = 12; why = "non-empty patch between a document and its copy"; goto done; }
            break;
        default:
            patch = cs ? cJSONUtils_GenerateMergePatchCaseSensitive(obj, other) : cJSONUtils_GenerateMergePatch(obj, other);
            break;
    }
    if (!big_chain_ok(obj, n, &why)) { rc = 1; goto done; }
    if (other != NULL && !big_chain_ok(other, n, &why)) { rc = 2; goto done; }
    if (how == 0)
    {
        for (c = obj->child; c != NULL && c->next != NULL; c = c->next)
        {
            if (fold_cmp(c->string, c->next->string, cs) > 0) { rc = 3; why = "keys are not in non-decreasing order after the sort"; goto done; }
        }
    }
    /* an append must land at the end; nothing may be lost */
    {
        cJSON *extra = cJSON_CreateString("appended");
        const cJSON *lastc;
        if (!cJSON_AddItemToObject(obj, "zzzz appended afterwards", extra)) { rc = 4; why = "append after the sort refused"; goto done; }
        if (!big_chain_ok(obj, n + 1, &why)) { rc = 5; goto done; }
        lastc = obj->child->prev;
        if (lastc != extra) { rc = 6; why = "the appended member is not the last member"; goto done; }
        if (cJSON_GetArraySize(obj) != (int)(n + 1)) { rc = 7; why = "size after append is not n+1"; goto done; }
        if (cJSON_DetachItemViaPointer(obj, extra) != extra) { rc = 8; why = "detaching the appended member failed"; goto done; }
        cJSON_Delete(extra);
        if (!big_chain_ok(obj, n, &why)) { rc = 9; goto done; }
    }
    if (how == 0)
    {
        /* idempotence of the key sequence */
        uint64_t h1 = 1469598103934665603ULL, h2 = 1469598103934665603ULL;
        for (c = obj->child; c != NULL; c = c->next) { const char *s; for (s = c->string; *s; s++) { h1 ^= (unsigned char)(cs ? *s : ((*s >= 'A' && *s <= 'Z') ? *s + 32 : *s)); h1 *= 1099511628211ULL; } h1 *= 31; }
        if (cs) cJSONUtils_SortObjectCaseSensitive(obj); else cJSONUtils_SortObject(obj);
        for (c = obj->child; c != NULL; c = c->next) { const char *s; for (s = c->string; *s; s++) { h2 ^= (unsigned char)(cs ? *s : ((*s >= 'A' && *s <= 'Z') ? *s + 32 : *s)); h2 *= 1099511628211ULL; } h2 *= 31; }
        if (h1 != h2) { rc = 13; why = "a second sort changes the key sequence"; goto done; }
        if (!big_chain_ok(obj, n, &why)) { rc = 14; goto done; }
    }
done:
    snprintf(msg, msglen, "%s", why);
    cJSON_Delete(obj);
    cJSON_Delete(other);
    cJSON_Delete(patch);
    return rc;
}

/* C06: value sequence of a (possibly very long) array or object, read in one call: valueint of every child in forward order */
long shim_array_ints(const cJSON *a, int *out, long cap)
{
    const cJSON *c;
    long n = 0;
    if (a == NULL)
    {
        return -1;
    }
    for (c = a->child; c != NULL; c = c->next)
    {
        if (n < cap)
        {
            out[n] = c->valueint;
        }
        n++;
        if (n > cap + 8)
        {
            break;
        }
    }
    return n;
}

/* every member of a big generated object is named "k<valueint>": returns the position of the first member for which that is not so, or -1 */
long shim_members_named_by_value(const cJSON *o)
{
    const cJSON *c;
    long n = 0;
    char key[32];
    for (c = o->child; c != NULL; c = c->next, n++)
    {
        snprintf(key, sizeof(key), "k%d", c->valueint);
        if (c->string == NULL || strcmp(c->string, key) != 0)
        {
            return n;
        }
    }
    return -1;
}

/* ambient C state a library call may inherit from unrelated earlier calls on the thread: errno.  A call that consults errno
 * without clearing it first behaves differently after, say, a parse of "1e999" (strtod leaves ERANGE). */
#include <errno.h>
void shim_set_errno(int e) { errno = e; }
int shim_get_errno(void) { return errno; }

cJSON *shim_get_pointer_errno(cJSON *object, const char *pointer, int case_sensitive, int e)
{
    errno = e;
    return case_sensitive ? cJSONUtils_GetPointerCaseSensitive(object, pointer) : cJSONUtils_GetPointer(object, pointer);
}

/* "never modifies its arguments": hash of every byte a tree consists of - the raw node structs (all bits of `type`, the link
 * pointers, the value fields), the string and key bytes.  Reference nodes' borrowed children/strings are not followed. */
static uint64_t rawhash_bytes(uint64_t h, const void *p, size_t n)
{
    const unsigned char *b = (const unsigned char *)p;
    size_t i;
    for (i = 0; i < n; i++)
    {
        h ^= b[i];
        h *= 1099511628211ULL;
    }
    return h;
}

uint64_t shim_tree_rawhash(const cJSON *n)
{
    uint64_t h = 1469598103934665603ULL;
    /* explicit stack: siblings iterate, children recurse (depth bounded by the callers) */
    for (; n != NULL; n = n->next)
    {
        h = rawhash_bytes(h, n, sizeof(*n));
        if (n->string != NULL)
        {
            h = rawhash_bytes(h, n->string, strlen(n->string) + 1);
        }
        if (!(n->type & cJSON_IsReference))
        {
            if (n->valuestring != NULL)
            {
                h = rawhash_bytes(h, n->valuestring, strlen(n->valuestring) + 1);
            }
            if (n->child != NULL)
            {
                h ^= shim_tree_rawhash(n->child);
                h *= 1099511628211ULL;
            }
        }
    }
    return h;
}
