"""libFuzzer campaign plans shared by the parser properties."""
import os

from . import build

SELECTORS = [0x00, 0x01, 0x05, 0x09, 0x0D, 0x02, 0x12, 0x22, 0x32, 0x03, 0x07, 0x0B, 0x0F, 0x13, 0x1F, 0x2B, 0x2F, 0x3F, 0x1B]

HAND_SEEDS = [
    b'{"a":[1,2.5e3,-0.1,true,false,null,"x\\n\\u00e9\\ud83d\\ude00"],"b":{}}',
    b'\xef\xbb\xbf [ ] ',
    b'"\\u0041\\uD834\\uDD1E\\\\\\/\\b\\f\\n\\r\\t"',
    b'-1.0E+2 ',
    b'[[[[[[[[[[[[[[[[[[[[[[[[[[[[[[[[1]]]]]]]]]]]]]]]]]]]]]]]]]]]]]]]]',
    b'{"k":{"k":{"k":{"k":{"k":{"k":{"k":{"k":null}}}}}}}}',
    b'[1,2,3] \x00',
    b'[1,2,3]\x00trailing',
    b'nul', b'tru', b'"abc', b'"abc\\', b'"\\u12', b'[1,', b'{"a"', b'{"a":', b'-', b'1e', b'\xef\xbb\xbf',
    b'{"a":1,/* c */"b":2}', b'[1, // c\n 2]', b'{"a":1,/*', b'[0x1F]', b'0x', b'-inf', b'[1e999, 5]', b'-nan(1)', b'"\\uD83D\\u"',
]


# tokens added to the repository's dictionary: things a parser might grow a taste for (comments, hex / inf / nan spellings the
# C library's strtod understands, odd UTF-8), none of them JSON
EXTRA_TOKENS = [b"/*", b"*/", b"//", b"0x", b"0X", b"0x1F", b"inf", b"-inf", b"nan", b"-nan(", b"Infinity", b"NaN", b"1e999", b"1e-999",
                b"\\u", b"\\uD800", b"\\uDC00", b"\\u0000", b"\xef\xbb\xbf", b"\xc0\x80", b"\xed\xa0\x80", b"\x00", b"'", b"+1", b".5", b"1.",
                b"-0", b"0E", b"e+", b"E-", b"\x7f", b"\xe2\x80\xa8", b"True", b"None", b"undefined"]


def parse_plan(tier, quick_runs, thorough_runs, procs_quick=6, procs_thorough=14, target="fz_parse"):
    repo = build.REPO
    quick = tier == "quick"
    max_len = 512 if quick else 4096
    seeds = []
    for i, s in enumerate(HAND_SEEDS):
        seeds.append(bytes([SELECTORS[i % len(SELECTORS)]]) + s)
        seeds.append(bytes([SELECTORS[(i * 7 + 3) % len(SELECTORS)]]) + s)
    if not quick:
        for k in (999, 1000, 1001):
            seeds.append(b"\x03" + b"[" * k + b"]" * k)
            seeds.append(b"\x0b" + b'{"a":' * k + b"1" + b"}" * k)
    return {
        "target": target,
        "procs": procs_quick if quick else procs_thorough,
        "runs": quick_runs if quick else thorough_runs,
        "max_len": max_len,
        "timeout": 10,
        "dict": os.path.join(repo, "fuzzing", "json.dict") if os.path.isfile(os.path.join(repo, "fuzzing", "json.dict")) else None,
        "corpus": [os.path.join(repo, "tests", "inputs"), os.path.join(repo, "fuzzing", "inputs")],
        "seed_prefixes": [bytes([x]) for x in SELECTORS],
        "seeds": seeds,
        "empty_corpus_procs": 1,
    }
