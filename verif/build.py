"""Builds the probe layer + the library under test from $VERIF_REPO (default /repo).

Every check invocation compiles cJSON.c / cJSON_Utils.c from the repository's current
working tree into a private directory build/<tag>.<pid>/ which is removed at exit.
"""
import atexit
import concurrent.futures
import os
import shutil
import subprocess
import sys

ROOT = os.path.dirname(os.path.dirname(os.path.abspath(__file__)))
NATIVE = os.path.join(ROOT, "native")
REPO = os.environ.get("VERIF_REPO", "/repo")
GUARD = "-DCJSON_VERIF"

WRAP = "-Wl,--wrap=malloc,--wrap=free,--wrap=realloc,--wrap=calloc"
PROBE_SRCS = ["ledger.c", "guard.c", "dump.c", "dialect.c"]

SAN_GCC = ["-fsanitize=address,undefined", "-fsanitize=float-cast-overflow",
           "-fno-sanitize-recover=all", "-fno-omit-frame-pointer"]
# clang flags NULL+0 in cJSON_GetErrorPtr (pointer-overflow); the property requires that
# call to return NULL, see DESIGN.md section 6 item 7.
SAN_CLANG = ["-fsanitize=address,undefined", "-fsanitize=float-cast-overflow",
             "-fno-sanitize=pointer-overflow", "-fno-sanitize-recover=all",
             "-fno-omit-frame-pointer"]


class BuildError(Exception):
    pass


def _run(cmd, cwd=None):
    p = subprocess.run(cmd, cwd=cwd, stdout=subprocess.PIPE, stderr=subprocess.STDOUT, text=True)
    if p.returncode != 0:
        raise BuildError("command failed: %s\n%s" % (" ".join(cmd), p.stdout))
    return p.stdout


def make_build_dir(tag):
    d = os.path.join(ROOT, "build", "%s.%d" % (tag, os.getpid()))
    if os.path.isdir(d):
        shutil.rmtree(d)
    os.makedirs(d)
    keep = os.environ.get("VERIF_KEEP_BUILD")

    def _cleanup(path=d, pid=os.getpid()):
        if os.getpid() == pid and not keep:
            shutil.rmtree(path, ignore_errors=True)
            try:
                os.rmdir(os.path.join(ROOT, "build"))
            except OSError:
                pass
    atexit.register(_cleanup)
    return d


def repo_sources():
    srcs = [os.path.join(REPO, "cJSON.c"), os.path.join(REPO, "cJSON_Utils.c")]
    for s in srcs:
        if not os.path.isfile(s):
            raise BuildError("missing source %s" % s)
    return srcs


def _compile_objects(cc, flags, srcs, outdir, suffix):
    objs = []
    jobs = []
    with concurrent.futures.ThreadPoolExecutor(max_workers=8) as ex:
        for s in srcs:
            o = os.path.join(outdir, os.path.basename(s).replace(".", "_") + suffix + ".o")
            objs.append(o)
            jobs.append(ex.submit(_run, [cc] + flags + ["-c", s, "-o", o]))
        for j in jobs:
            j.result()
    return objs


def build_shim(outdir, sanitize=True):
    """gcc ASan+UBSan shared object for ctypes: library + probe layer + shim."""
    flags = ["-O1", "-g", "-fPIC", "-DENABLE_LOCALES", GUARD, "-I" + REPO, "-I" + NATIVE, "-w"]
    if sanitize:
        flags += SAN_GCC
    srcs = repo_sources() + [os.path.join(NATIVE, s) for s in PROBE_SRCS + ["shim.c"]]
    objs = _compile_objects("gcc", flags, srcs, outdir, "_shim")
    so = os.path.join(outdir, "libshim.so")
    link = ["gcc", "-shared", "-o", so] + objs + [WRAP, "-lm"]
    if sanitize:
        link += SAN_GCC
    _run(link)
    return so


def build_fuzzer(outdir, target):
    """clang libFuzzer binary: native/<target>.c + library + probe layer."""
    flags = ["-O1", "-g", "-DENABLE_LOCALES", GUARD, "-I" + REPO, "-I" + NATIVE, "-w"] + SAN_CLANG
    lib_flags = flags + ["-fsanitize=fuzzer-no-link"]
    srcs = repo_sources() + [os.path.join(NATIVE, s) for s in PROBE_SRCS] + [os.path.join(NATIVE, target + ".c")]
    objs = _compile_objects("clang", lib_flags, srcs, outdir, "_" + target)
    exe = os.path.join(outdir, target)
    _run(["clang", "-o", exe] + objs + SAN_CLANG + ["-fsanitize=fuzzer", WRAP, "-lm"])
    return exe


def build_tsan(outdir):
    flags = ["-O1", "-g", "-DENABLE_LOCALES", GUARD, "-I" + REPO, "-I" + NATIVE, "-w",
             "-fsanitize=thread", "-fno-omit-frame-pointer"]
    srcs = repo_sources() + [os.path.join(NATIVE, "tsan_driver.c")]
    objs = _compile_objects("gcc", flags, srcs, outdir, "_tsan")
    exe = os.path.join(outdir, "tsan_driver")
    _run(["gcc", "-o", exe] + objs + ["-fsanitize=thread", "-lm", "-lpthread"])
    return exe


def asan_preload():
    out = subprocess.run(["gcc", "-print-file-name=libasan.so"], stdout=subprocess.PIPE, text=True).stdout.strip()
    return os.path.realpath(out)


def sanitizer_env(extra=None):
    env = dict(os.environ)
    env["LD_PRELOAD"] = asan_preload()
    env["ASAN_OPTIONS"] = "detect_leaks=0:exitcode=86:abort_on_error=0:allocator_may_return_null=1:handle_segv=1:detect_stack_use_after_return=0"
    env["UBSAN_OPTIONS"] = "print_stacktrace=1:halt_on_error=1:exitcode=86"
    env["PYTHONDONTWRITEBYTECODE"] = "1"
    if extra:
        env.update(extra)
    return env


if __name__ == "__main__":
    d = make_build_dir("manual")
    print(build_shim(d))
