"""C03 - malformed text is rejected and leaves nothing behind."""
import ctypes
import random

from hypothesis import strategies as st

from .. import gens, model, fuzzplan
from ..core import Prop, Violation
from ..lib import SweepOut, RC_INVALID, RC_STRICT, RC_NAMES

BOM = b"\xef\xbb\xbf"

# fragments that are not JSON on their own and not inside the lenient envelope, per class
BAD_FRAGMENTS = {
    "non_string_key": [b"{a:1}", b"{1:2}", b"{true:1}", b"{null:1}", b"{[]:1}", b"{{}:1}", b"{'a':1}", b"{\"a\":1,b:2}", b"{-1:1}"],
    "comma": [b"[,1]", b"[1,]", b"[1,,2]", b"[,]", b"{,}", b"{\"a\":1,}", b"{,\"a\":1}", b"{\"a\":1,,\"b\":2}", b"[1 2]",
              b"{\"a\":1 \"b\":2}", b"[1,2,]", b"[\"a\" \"b\"]", b"[true false]"],
    "colon": [b"{\"a\" 1}", b"{\"a\"::1}", b"{\"a\",1}", b"{\"a\":}", b"{:1}", b"{\"a\"}", b"{\"a\":1:2}", b"[1:2]", b"{\"a\"=1}"],
    "bracket": [b"[1}", b"{\"a\":1]", b"[[1]}", b"{\"a\":[1}}", b"[", b"{", b"[1", b"{\"a\":1", b"[[1]", b"[{\"a\":1]", b"]", b"}", b"[}", b"{]"],
    "literal": [b"True", b"TRUE", b"False", b"NULL", b"Null", b"nul", b"tru", b"fals", b"nULL", b"tRue", b"n", b"t", b"f",
                b"nil", b"none", b"treu", b"flase", b"nulL", b"truE", b"falsE", b"undefined", b"yes"],
    "digitless_number": [b"-", b"+", b".", b"e", b"E", b"-e1", b".e1", b"--1", b"-+1", b"+-1", b"-a", b"- 1", b"-\"1\"", b"e5", b"E-5", b"-]",
                         # long runs of number characters without a digit after the sign (no accept verdict beyond 63, but nothing may be left behind)
                         b"-" * 62, b"-" * 63, b"-" * 64, b"-" * 65, b"-" + b"e" * 70, b"-." + b"e+" * 40, b"-" * 200],
    # more than 63 number characters of which the C library reads only a proper prefix as a number: whatever the
    # implementation does about the documented 63-character limit, the rest cannot follow a value
    "long_number_bad_tail": [b"3." + b"1" * 61 + b"e+-.5e", b"0." + b"0" * 70 + b".5", b"2" + b"7" * 66 + b"E+", b"1" + b"2" * 62 + b"+-",
                             b"1" * 64 + b"-1", b"1e5" + b"0" * 61 + b"e5", b"-" + b"9" * 63 + b"..", b"1" * 100 + b"e", b"0." + b"5" * 61 + b"e",
                             b"1" * 63 + b".e1", b"4" * 62 + b"e+", b"-0." + b"0" * 60 + b"1-", b"6" * 63 + b"-", b"1.5" + b"0" * 200 + b"+1"],
    "unterminated_string": [b"\"abc", b"\"", b"\"abc\\\"", b"\"a\\\\\\\"", b"\"abc\\", b"\"\\u1234", b"\"a\nb"],
    "unknown_escape": [b"\"\\a\"", b"\"\\x41\"", b"\"\\U0041\"", b"\"\\'\"", b"\"\\0\"", b"\"\\ \"", b"\"\\\n\"", b"\"\\v\"", b"\"\\e\"",
                       b"\"\\N\"", b"\"\\B\"", b"\"\\T\"", b"\"ab\\qcd\"", b"\"\\1\"", b"\"\\\xc3\xa9\""],
    "bad_u_escape": [b"\"\\u12\"", b"\"\\u12G4\"", b"\"\\u 123\"", b"\"\\u+123\"", b"\"\\uZZZZ\"", b"\"\\u\"", b"\"\\u1\"", b"\"\\u123\"",
                     b"\"\\u123g\"", b"\"\\ug123\"", b"\"\\u-123\"", b"\"\\u12 4\"", b"\"\\u00:0\"", b"\"\\u00/1\"", b"\"\\u00@1\"", b"\"\\u00`1\"",
                     b"\"\\u0x41\"", b"\"a\\u004\"", b"\"\\uD834\\uDD1\"", b"\"\\uD834\\uDDZE\"", b"\"\\uD834\\uZD1E\""],
    "surrogate": [b"\"\\uDC00\"", b"\"\\uDFFF\"", b"\"\\uD800\"", b"\"\\uDBFF\"", b"\"\\uD800x\"", b"\"\\uD800\\n\"", b"\"\\uD800\\u0041\"",
                  b"\"\\uDC00\\uD800\"", b"\"\\uD800\\uD800\"", b"\"\\uD834\\u\"", b"\"\\uD834\\\"", b"\"\\uD834\\uDBFF\"", b"\"\\uD834\\uE000\"",
                  b"\"\\uD834 \\uDD1E\"", b"\"\\uD834\\\\uDD1E\"", b"\"a\\uDD1E\\uD834\""],
}
CLASSES = sorted(BAD_FRAGMENTS)

EDIT_ALPHABET = b'[]{},:"\\/-+.eE0123456789 \tntfualsr\x00\x7f\xff\'bu'


def cut0(b):
    i = b.find(b"\x00")
    return b if i < 0 else b[:i]


class C03(Prop):
    ID = "C03"
    RULE = ("(a) one-edit corruptions (delete/insert/replace/duplicate/swap/truncate) of generated valid texts; (b) one generator per "
            "must-reject class of the statement (bad fragment substituted for a drawn node of a valid document); (c) ALL token "
            "sequences over 11 tokens up to length 5 (quick) / 7 (thorough), enumerated in C and partitioned over the workers; "
            "(d) libFuzzer fz_parse with the recogniser as differential oracle; (e) nesting limit+1..10^6; every parse runs over dead stack filled with a drawn byte value (untouched, '7', '1', 'e'). Verdict from an "
            "independent dialect recogniser: INVALID => every entry point returns NULL and the ledger is empty; STRICT => accepted. "
            "non-trivial = INVALID text whose first offending byte is at offset >= 1; distinct by text hash (by construction "
            "for the enumeration)")
    ASSUMPTIONS = ["the lenient envelope is the generous reading of the four permitted deviations (DESIGN.md Appendix C); texts inside it get no accept/reject verdict",
                   "runs of more than 63 number characters that the C library reads as ONE number, and \\u0000, are UNDECIDED (documented limits)"]
    REQUIRED_CLASSES = CLASSES + ["edit_invalid", "depth_over_limit", "truncation"]

    def budget(self, tier):
        return {"workers": 10, "examples": 1000 if tier == "quick" else 20000}

    def fuzz_plan(self, tier):
        return [fuzzplan.parse_plan(tier, 300000, 6000000, procs_quick=6, procs_thorough=6)]

    def strategy(self, tier):
        leaves = gens.scalars_text(strings=gens.utf8_strings(6))
        keys = st.one_of(gens.utf8_strings(4), gens.ascii_keys(3))
        docs = gens.documents(leaves, keys, max_leaves=10, max_width=4)
        common = {"jv": docs, "rseed": st.integers(0, 2 ** 32 - 1), "bom": gens.chance(6)}
        edit = st.fixed_dictionaries(dict(common, kind=st.just("edit"),
                                          op=st.sampled_from(["delete", "insert", "replace", "dup", "swap", "truncate"]),
                                          pos=st.integers(0, 10 ** 6), byte=st.sampled_from(list(EDIT_ALPHABET))))
        klass = st.fixed_dictionaries(dict(common, kind=st.just("class"), cls=st.sampled_from(CLASSES),
                                           which=st.integers(0, 63), node=st.integers(0, 10 ** 6)))
        deep = st.fixed_dictionaries({"kind": st.just("deep"), "open": st.sampled_from(["[", '{"a":', '[{"a":', "[[],", '{"e":{},"a":', "[{},[],", '{"e":[],"a":[', "[1,"]),
                                      "rel": st.sampled_from([1, 1, 2, 3, 10, 1000, 99000, 999000]),
                                      "closed": st.booleans()})
        return st.one_of(edit, edit, edit, klass, klass, klass, klass, deep)

    # ------------------------------------------------------------------
    def prelude(self, lib, stats, index, nworkers, tier):
        maxlen = 5 if tier == "quick" else 7
        case = {"kind": "tokens", "maxlen": maxlen, "part": index, "nparts": nworkers}
        self.last_write(case)
        self.run_tokens(lib, stats, case)

    def run_tokens(self, lib, stats, case):
        so = SweepOut()
        lib.sweep_tokens(case["maxlen"], case["part"], case["nparts"], lib.nesting_limit, ctypes.byref(so))
        stats.inner += int(so.iterations)
        stats.cls("token_sequences", int(so.iterations) // 4)
        stats.cls("token_sequences_invalid_nontrivial", int(so.nontrivial))
        stats.enumerated_nontrivial += int(so.nontrivial)
        if so.code:
            buf = ctypes.create_string_buffer(128)
            n = lib.token_text(so.a, so.b, buf)
            text = buf.raw[:n]
            raise Violation("%s: %r (recogniser: %s)" % (so.msg.decode(), text, RC_NAMES[so.c]),
                            key="tokens:%d" % so.code, detail={"case": {"kind": "text", "text": text}})

    def cross_check_recogniser(self, lib, stats, text):
        """the recogniser itself is checked against Python's strict json decoder on every generated text
        (a disagreement is a defect of the harness, reported as such, never as a violation)"""
        import json
        if text[:3] == BOM or len(text) > 4000 or text.count(b"[") + text.count(b"{") > 900:
            return   # (the nesting limit is cJSON's, not JSON's)
        try:
            u = text.decode("utf-8")
        except UnicodeDecodeError:
            return
        rc = lib.classify(text)
        if rc.cls == 3:
            return
        whole = rc.cls == RC_STRICT and text[rc.value_end:].strip(b" \t\r\n") == b""

        def no_const(name):
            raise ValueError("constant " + name)
        try:
            json.loads(u, parse_constant=no_const)
            py = True
        except RecursionError:
            return
        except ValueError:
            py = False
        low = text.lower()
        if py and not whole:
            # Python tolerates unpaired surrogate escapes; everything else it accepts must be strict here
            if b"\\ud" in low:
                return
            raise RuntimeError("harness: dialect recogniser says %s (bad byte %d) for %r, Python's strict json accepts it" % (RC_NAMES[rc.cls], rc.bad_offset, text[:200]))
        if whole and not py:
            raise RuntimeError("harness: dialect recogniser says STRICT for %r, Python's strict json rejects it" % text[:200])
        stats.cls("recogniser_agrees_with_python_json")

    def check_text(self, lib, stats, text, label):
        """the oracle proper: classify exactly what each entry point may see, demand the verdict"""
        self.cross_check_recogniser(lib, stats, text)
        worst_bad = None
        for entry in (0, 1, 2, 3):
            if entry < 2:
                body = cut0(text)
                data = body + b"\x00"
                judged = body
            else:
                data = text
                judged = text
            rc = lib.classify(judged)
            for rq, want_end in ((0, 1), (1, 0)) if entry in (1, 3) else ((0, 0),):
                live = lib.ledger_live()
                po = lib.parse(entry, data, (entry + rq) & 1, rq, want_end)
                stats.inner += 1
                if po.tree:
                    fl, _, _ = lib.walk(po.tree)
                    lib.cJSON_Delete(po.tree)
                    if rc.cls == RC_INVALID:
                        raise Violation("%s: text outside the dialect accepted by entry %d (require_null_terminated=%d): %r (first bad byte at %d)" % (
                            label, entry, rq, judged[:200], rc.bad_offset), key="accepted:" + label)
                    if rq and rc.cls == RC_STRICT:
                        # bytes after the first complete value may be accepted ONLY when termination is not required
                        tail = data[rc.value_end:]
                        k = 0
                        while k < len(tail) and tail[k] != 0 and tail[k] <= 0x20:
                            k += 1
                        if k == len(tail) or tail[k] > 0x20:
                            raise Violation("%s: termination required, the value is followed by %r, yet entry %d accepted the text %r" % (
                                label, tail[:12], entry, judged[:200]), key="accepted-trailing:" + label)
                    if fl:
                        raise Violation("accepted text gives a tree with structural flags", key="structure")
                else:
                    if rc.cls == RC_STRICT and rq == 0:
                        raise Violation("%s: strict RFC 8259 text rejected by entry %d: %r" % (label, entry, judged[:200]), key="rejected")
                if lib.ledger_live() != live:
                    raise Violation("%s: allocations outlive the call (entry %d, accepted=%s): %r" % (label, entry, bool(po.tree), judged[:200]), key="leak")
            if rc.cls == RC_INVALID and entry == 2:
                worst_bad = rc.bad_offset
        return worst_bad

    def run_case(self, lib, case, stats):
        kind = case["kind"]
        if kind == "tokens":
            return self.run_tokens(lib, stats, case)
        if kind == "text":
            return self.check_text(lib, stats, case["text"], "replay")
        if kind == "deep":
            depth = lib.nesting_limit + case["rel"]
            opener = case["open"].encode()
            from .c01 import net_depth, closer_of
            per = net_depth(opener)
            reps = (depth + per - 1) // per if per > 1 else depth
            if reps * per <= lib.nesting_limit:
                reps += 1
            text = opener * reps
            if case["closed"]:
                text += b"1" + closer_of(opener) * reps
            rc = lib.classify(text)
            stats.cls("depth_over_limit")
            if rc.cls != RC_INVALID:
                raise Violation("harness: recogniser does not call depth %d invalid" % (reps * per), key="harness")
            stats.nontriv(["deep", case["open"], reps, case["closed"]], {"opener": case["open"], "repeat": reps, "closed": case["closed"]})
            self.check_text(lib, stats, text, "depth_over_limit")
            return
        rnd = random.Random(case["rseed"])
        jv = case["jv"]
        if kind == "class":
            frags = BAD_FRAGMENTS[case["cls"]]
            frag = frags[case["which"] % len(frags)]
            jv = substitute(jv, case["node"], ["R", frag])
            text = (BOM if case["bom"] else b"") + model.emit_text(jv, rnd)
            label = case["cls"]
        else:
            base = (BOM if case["bom"] else b"") + model.emit_text(jv, rnd)
            text = apply_edit(base, case["op"], case["pos"], case["byte"])
            label = "edit"
        bad = self.check_text(lib, stats, text, label)
        if bad is not None:
            stats.cls(label if kind == "class" else "edit_invalid")
            if kind == "edit" and case["op"] == "truncate":
                stats.cls("truncation")
            if bad >= 1:
                stats.nontriv(text, {"class": label, "text": text, "first_bad_offset": bad})
        else:
            stats.cls("not_invalid:" + ("class" if kind == "class" else "edit"))

    def shrink_candidates(self, case):
        if case.get("kind") == "text" and len(case["text"]) > 1:
            t = case["text"]
            return [dict(case, text=t[:i] + t[i + 1:]) for i in range(len(t))][:40]
        return []


def count_nodes(jv):
    return model.count_nodes(jv)


def substitute(jv, index, repl):
    """replace the (index mod #nodes)-th node in preorder by repl"""
    n = model.count_nodes(jv)
    target = index % n
    counter = [0]

    def rec(node):
        i = counter[0]
        counter[0] += 1
        if i == target:
            return repl
        if node[0] == "A":
            return ["A", [rec(ch) for ch in node[1]]]
        if node[0] == "O":
            return ["O", [[k, rec(ch)] for k, ch in node[1]]]
        return node
    return rec(jv)


def apply_edit(text, op, pos, byte):
    if not text:
        return bytes([byte])
    p = pos % len(text)
    if op == "delete":
        return text[:p] + text[p + 1:]
    if op == "insert":
        return text[:p] + bytes([byte]) + text[p:]
    if op == "replace":
        return text[:p] + bytes([byte]) + text[p + 1:]
    if op == "dup":
        return text[:p] + text[p:p + 1] + text[p:]
    if op == "swap":
        if p + 1 < len(text):
            return text[:p] + text[p + 1:p + 2] + text[p:p + 1] + text[p + 2:]
        return text
    return text[:p]


PROP = C03()
