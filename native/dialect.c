/* Independent recogniser of the JSON dialect (DESIGN.md Appendix C).
 * Written from RFC 8259 and the four leniencies listed in property C03; it shares
 * no code with cJSON.  Iterative (explicit stack), so that 10^6-deep inputs
 * classify without recursion. */
#include <stdlib.h>
#include <string.h>
#include "probe.h"

typedef struct
{
    const unsigned char *b;
    size_t n;
    size_t i;
    int lenient;
    int undecided;
    size_t bad;
} rs_t;

static int is_strict_ws(unsigned char c) { return c == ' ' || c == '\t' || c == '\n' || c == '\r'; }

static void skip_ws(rs_t *s)
{
    while (s->i < s->n && s->b[s->i] <= 0x20)
    {
        if (!is_strict_ws(s->b[s->i]))
        {
            s->lenient = 1;
        }
        s->i++;
    }
}

static int hexval(unsigned char c)
{
    if (c >= '0' && c <= '9') return c - '0';
    if (c >= 'a' && c <= 'f') return c - 'a' + 10;
    if (c >= 'A' && c <= 'F') return c - 'A' + 10;
    return -1;
}

/* reads 4 hex digits at s->i; returns code or -1 (bad set) */
static long hex4(rs_t *s)
{
    long v = 0;
    int k;
    for (k = 0; k < 4; k++)
    {
        int h;
        if (s->i >= s->n)
        {
            s->bad = s->n;
            return -1;
        }
        h = hexval(s->b[s->i]);
        if (h < 0)
        {
            s->bad = s->i;
            return -1;
        }
        v = v * 16 + h;
        s->i++;
    }
    return v;
}

/* length of a valid UTF-8 scalar starting at p (avail bytes), 0 if invalid */
static size_t utf8_len(const unsigned char *p, size_t avail)
{
    unsigned char c = p[0];
    if (c < 0x80) return 1;
    if (c >= 0xC2 && c <= 0xDF)
    {
        if (avail >= 2 && (p[1] & 0xC0) == 0x80) return 2;
        return 0;
    }
    if (c >= 0xE0 && c <= 0xEF)
    {
        if (avail < 3 || (p[1] & 0xC0) != 0x80 || (p[2] & 0xC0) != 0x80) return 0;
        if (c == 0xE0 && p[1] < 0xA0) return 0;
        if (c == 0xED && p[1] > 0x9F) return 0;
        return 3;
    }
    if (c >= 0xF0 && c <= 0xF4)
    {
        if (avail < 4 || (p[1] & 0xC0) != 0x80 || (p[2] & 0xC0) != 0x80 || (p[3] & 0xC0) != 0x80) return 0;
        if (c == 0xF0 && p[1] < 0x90) return 0;
        if (c == 0xF4 && p[1] > 0x8F) return 0;
        return 4;
    }
    return 0;
}

/* s->i at opening quote. returns 1 ok, 0 invalid */
static int scan_string(rs_t *s)
{
    s->i++; /* opening quote */
    for (;;)
    {
        unsigned char c;
        if (s->i >= s->n)
        {
            s->bad = s->n;
            return 0;
        }
        c = s->b[s->i];
        if (c == '"')
        {
            s->i++;
            return 1;
        }
        if (c == '\\')
        {
            unsigned char e;
            if (s->i + 1 >= s->n)
            {
                s->bad = s->n;
                return 0;
            }
            e = s->b[s->i + 1];
            switch (e)
            {
                case '"': case '\\': case '/': case 'b': case 'f': case 'n': case 'r': case 't':
                    s->i += 2;
                    break;
                case 'u':
                {
                    long code;
                    s->i += 2;
                    code = hex4(s);
                    if (code < 0) return 0;
                    if (code == 0)
                    {
                        s->undecided = 1;
                    }
                    if (code >= 0xDC00 && code <= 0xDFFF)
                    {
                        s->bad = s->i - 6;
                        return 0;
                    }
                    if (code >= 0xD800 && code <= 0xDBFF)
                    {
                        long low;
                        if (s->i >= s->n) { s->bad = s->n; return 0; }
                        if (s->b[s->i] != '\\') { s->bad = s->i; return 0; }
                        if (s->i + 1 >= s->n) { s->bad = s->n; return 0; }
                        if (s->b[s->i + 1] != 'u') { s->bad = s->i + 1; return 0; }
                        s->i += 2;
                        low = hex4(s);
                        if (low < 0) return 0;
                        if (low < 0xDC00 || low > 0xDFFF)
                        {
                            s->bad = s->i - 4;
                            return 0;
                        }
                    }
                    break;
                }
                default:
                    s->bad = s->i + 1;
                    return 0;
            }
            continue;
        }
        if (c < 0x20)
        {
            s->lenient = 1;
            s->i++;
            continue;
        }
        {
            size_t l = utf8_len(s->b + s->i, s->n - s->i);
            if (l == 0)
            {
                s->lenient = 1;
                s->i++;
            }
            else
            {
                s->i += l;
            }
        }
    }
}

static int is_digit(unsigned char c) { return c >= '0' && c <= '9'; }

static size_t strict_number_len(const unsigned char *p, size_t avail)
{
    size_t i = 0;
    if (i < avail && p[i] == '-') i++;
    if (i >= avail) return 0;
    if (p[i] == '0')
    {
        i++;
    }
    else if (p[i] >= '1' && p[i] <= '9')
    {
        while (i < avail && is_digit(p[i])) i++;
    }
    else
    {
        return 0;
    }
    if (i + 1 < avail && p[i] == '.' && is_digit(p[i + 1]))
    {
        i++;
        while (i < avail && is_digit(p[i])) i++;
    }
    if (i < avail && (p[i] == 'e' || p[i] == 'E'))
    {
        size_t j = i + 1;
        if (j < avail && (p[j] == '+' || p[j] == '-')) j++;
        if (j < avail && is_digit(p[j]))
        {
            while (j < avail && is_digit(p[j])) j++;
            i = j;
        }
    }
    return i;
}

/* number-ish token at s->i. returns 1 ok, 0 invalid */
static int scan_number(rs_t *s)
{
    const unsigned char *p = s->b + s->i;
    size_t avail = s->n - s->i;
    size_t run = 0;
    size_t strict_len;
    size_t lenient_len = 0;
    char tmp[400];
    size_t copy;
    char *end = NULL;

    while (run < avail && (is_digit(p[run]) || p[run] == '+' || p[run] == '-' || p[run] == 'e' || p[run] == 'E' || p[run] == '.'))
    {
        run++;
    }
    if (run > 63)
    {
        /* a run of number characters beyond the documented 63-character limit.  If the C library reads the WHOLE run as
         * one number, acceptance depends on how the limit is implemented (today: refused inside containers): no verdict.
         * If it does not (malformed tail such as "e+-.5e", or no digits at all), then no reading makes the run a number
         * token: whatever prefix is a number is followed by a number character, which can follow a value nowhere - the
         * ordinary rules decide (rejected inside containers and when termination is required). */
        size_t consumed = run;
        if (run < sizeof(tmp) - 2)
        {
            memcpy(tmp, p, run);
            tmp[run] = '\0';
            (void)strtod(tmp, &end);
            consumed = (size_t)(end - tmp);
        }
        if (consumed == run)
        {
            s->undecided = 1;
            s->i += run;
            return 1;
        }
        if (consumed == 0)
        {
            s->bad = s->i;
            return 0;
        }
        s->lenient = 1;
        s->i += consumed;
        return 1;
    }
    strict_len = strict_number_len(p, avail);
    copy = avail < sizeof(tmp) - 1 ? avail : sizeof(tmp) - 1;
    memcpy(tmp, p, copy);
    tmp[copy] = '\0';
    /* strtod skips leading white space itself; a value position never starts with it here */
    if (copy > 0 && !(tmp[0] <= 0x20 && tmp[0] >= 0))
    {
        (void)strtod(tmp, &end);
        lenient_len = (size_t)(end - tmp);
    }
    if (lenient_len >= sizeof(tmp) - 2)
    {
        /* a token this long is outside everything the property pins down */
        s->undecided = 1;
        s->i += lenient_len;
        return 1;
    }
    if (strict_len > 0 && strict_len >= lenient_len)
    {
        s->i += strict_len;
        return 1;
    }
    if (lenient_len > 0)
    {
        s->lenient = 1;
        s->i += lenient_len;
        return 1;
    }
    s->bad = s->i;
    return 0;
}

static int match_lit(rs_t *s, const char *lit)
{
    size_t l = strlen(lit);
    size_t k;
    for (k = 0; k < l; k++)
    {
        if (s->i + k >= s->n)
        {
            s->bad = s->n;
            return 0;
        }
        if (s->b[s->i + k] != (unsigned char)lit[k])
        {
            s->bad = s->i + k;
            return 0;
        }
    }
    s->i += l;
    return 1;
}

void ref_classify(const unsigned char *b, size_t n, int nesting_limit, ref_result_t *out)
{
    rs_t s;
    unsigned char *stack = NULL;
    size_t sp = 0, scap = 0;
    int maxdepth = 0;
    enum { S_VALUE, S_ARR_FIRST, S_OBJ_FIRST, S_OBJ_KEY, S_AFTER } state = S_VALUE;
    int ok = 1;
    int done = 0;

    memset(&s, 0, sizeof(s));
    s.b = b;
    s.n = n;
    memset(out, 0, sizeof(*out));

    if (n >= 3 && b[0] == 0xEF && b[1] == 0xBB && b[2] == 0xBF)
    {
        s.i = 3;
    }
    skip_ws(&s);
    out->value_start = s.i;

    while (ok && !done && !s.undecided)
    {
        switch (state)
        {
            case S_ARR_FIRST:
                skip_ws(&s);
                if (s.i < s.n && s.b[s.i] == ']')
                {
                    s.i++;
                    sp--;
                    state = S_AFTER;
                    break;
                }
                state = S_VALUE;
                /* fall through */
            case S_VALUE:
            {
                unsigned char c;
                skip_ws(&s);
                if (s.i >= s.n)
                {
                    s.bad = s.n;
                    ok = 0;
                    break;
                }
                c = s.b[s.i];
                if (c == '"')
                {
                    ok = scan_string(&s);
                    state = S_AFTER;
                }
                else if (c == '[' || c == '{')
                {
                    if ((int)sp >= nesting_limit)
                    {
                        s.bad = s.i;
                        ok = 0;
                        break;
                    }
                    if (sp == scap)
                    {
                        scap = scap ? scap * 2 : 1024;
                        stack = (unsigned char *)probe_realloc(stack, scap);
                        if (stack == NULL) harness_die("dialect: out of memory");
                    }
                    stack[sp++] = c;
                    if ((int)sp > maxdepth) maxdepth = (int)sp;
                    s.i++;
                    state = (c == '[') ? S_ARR_FIRST : S_OBJ_FIRST;
                }
                else if (c == 't')
                {
                    ok = match_lit(&s, "true");
                    state = S_AFTER;
                }
                else if (c == 'f')
                {
                    ok = match_lit(&s, "false");
                    state = S_AFTER;
                }
                else if (c == 'n' && !(s.i + 1 < s.n && s.b[s.i + 1] == 'a'))
                {
                    ok = match_lit(&s, "null");
                    state = S_AFTER;
                }
                else
                {
                    ok = scan_number(&s);
                    state = S_AFTER;
                }
                break;
            }
            case S_OBJ_FIRST:
                skip_ws(&s);
                if (s.i < s.n && s.b[s.i] == '}')
                {
                    s.i++;
                    sp--;
                    state = S_AFTER;
                    break;
                }
                /* fall through */
            case S_OBJ_KEY:
                skip_ws(&s);
                if (s.i >= s.n)
                {
                    s.bad = s.n;
                    ok = 0;
                    break;
                }
                if (s.b[s.i] != '"')
                {
                    s.bad = s.i;
                    ok = 0;
                    break;
                }
                ok = scan_string(&s);
                if (!ok) break;
                skip_ws(&s);
                if (s.i >= s.n)
                {
                    s.bad = s.n;
                    ok = 0;
                    break;
                }
                if (s.b[s.i] != ':')
                {
                    s.bad = s.i;
                    ok = 0;
                    break;
                }
                s.i++;
                state = S_VALUE;
                break;
            case S_AFTER:
                if (sp == 0)
                {
                    done = 1;
                    break;
                }
                skip_ws(&s);
                if (s.i >= s.n)
                {
                    s.bad = s.n;
                    ok = 0;
                    break;
                }
                if (s.b[s.i] == ',')
                {
                    s.i++;
                    state = (stack[sp - 1] == '[') ? S_VALUE : S_OBJ_KEY;
                }
                else if ((s.b[s.i] == ']' && stack[sp - 1] == '[') || (s.b[s.i] == '}' && stack[sp - 1] == '{'))
                {
                    s.i++;
                    sp--;
                }
                else
                {
                    s.bad = s.i;
                    ok = 0;
                }
                break;
        }
    }
    probe_free(stack);
    out->max_depth = maxdepth;
    if (s.undecided)
    {
        out->cls = RC_UNDECIDED;
        out->value_end = s.i;
        return;
    }
    if (!ok)
    {
        out->cls = RC_INVALID;
        out->bad_offset = s.bad;
        return;
    }
    out->value_end = s.i;
    out->cls = s.lenient ? RC_LENIENT : RC_STRICT;
}
