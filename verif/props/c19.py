"""C19 - sorting an object yields a sorted permutation and a healthy tree."""
import ctypes

from hypothesis import strategies as st

from .. import gens, model
from ..core import Prop, Violation
from .c06 import OPS_WEIGHTED, op_records, run_program

SORT_KEYS = [b"", b"a", b"A", b"b", b"B", b"ab", b"aB", b"Ab", b"abc", b"z", b"Z", b"0", b"10", b"9", b"_", b"[", b"{", b"\xc3\xa9", b"a/b", b"~"]
OPS_C19 = [o for o in OPS_WEIGHTED if o not in ("create_containerref", "create_stringref", "add_ref")] + ["sort"] * 14 + ["util_sorting"] * 8 + \
    ["add_object"] * 8 + ["add_helper"] * 6 + ["detach_key"] * 3 + ["replace_key"] * 3 + ["print"] * 3 + ["insert"] * 2


def wide_objects():
    leaves = st.one_of(st.just(["n"]), st.just(["t"]), st.integers(-5, 5).map(lambda i: ["N", float(i)]), st.sampled_from([b"", b"v"]).map(lambda s: ["S", s]),
                       st.just(["A", [["N", 1.0], ["O", [[b"b", ["n"]], [b"a", ["t"]], [b"B", ["f"]]]]]]),
                       st.just(["O", [[b"z", ["n"]], [b"y", ["O", [[b"q", ["n"]], [b"p", ["n"]], [b"Q", ["n"]]]]], [b"x", ["t"]]]]))
    member = st.tuples(st.sampled_from(SORT_KEYS), leaves).map(list)
    return st.lists(member, min_size=0, max_size=40).map(lambda m: ["O", m])


class C19(Prop):
    ID = "C19"
    RULE = ("(family) 3-24 names sharing a beginning of 7..1000 bytes (partly in the other letter case), inserted in random or monotone order, sorted directly and through both generators and patch test: order, permutation, detach/insert of a middle member, append at the end, idempotence; (programs) seed objects of 0-40 members with keys from a 20-key alphabet (duplicates, prefixes, case variants, the empty key, non-letters "
            "adjacent to the case bit) and nested objects/arrays as values, plus C06 seed trees; operation programs mixing SortObject / "
            "SortObjectCaseSensitive on any object of any live tree, the utilities that sort internally (patch 'test', GeneratePatches, "
            "GenerateMergePatch, both case modes) and the C06 edit/query/print/delete operations. Oracle at each sort: keys non-decreasing "
            "under the variant's order, members are exactly the same nodes, a second sort changes nothing (node order too when keys are "
            "distinct); after EVERY step every live tree equals the list/map model (so subtrees are untouched and sibling/tail links are "
            "healthy), every append/insert/detach/replace returns what the model predicts, final deletion empties the ledger. "
            "Plus objects of 1000..400000 members (keys descending, ascending, random, all equal, short runs, duplicates, mixed case) sorted "
            "directly or through a sorting utility, checked natively: key order, member count, chain and tail link, an append lands at the end, a second sort changes nothing. "
            "non-trivial = a sort (or sorting utility) on an object of >= 3 members that was not already sorted, followed by >= 1 append; "
            "distinct by program hash")
    ASSUMPTIONS = ["node order among members with equal keys after a sort is not asserted (the statement does not claim stability)"]
    REQUIRED_CLASSES = ["sort", "util_sorting", "sort_unsorted>=3", "nontrivial_program", "big_object>10001", "key_family", "patch_test_against_near_copy", "family_in_monotone_order"]

    def budget(self, tier):
        return {"workers": 14, "examples": 700 if tier == "quick" else 15000}

    def strategy(self, tier):
        from .c06 import seed_trees
        seeds = st.tuples(st.lists(wide_objects(), min_size=1, max_size=2), seed_trees(2)).map(lambda t: t[0] + t[1])
        main = st.fixed_dictionaries({"seeds": seeds, "ops": op_records(OPS_C19, 45)})
        # very large objects ("any size"): key order, member count, chain, tail link, append and idempotence are checked natively
        big = st.fixed_dictionaries({"kind": st.just("big"),
                                     "n": st.sampled_from([1000, 4096, 10000, 10001, 10002, 10003, 12000, 20000, 65536, 65537, 150000, 300000, 400000]),
                                     "order": st.integers(0, 6), "cs": st.integers(0, 1), "how": st.sampled_from([0, 0, 0, 1, 2, 3])})
        # names that agree in a long beginning (longer than any scratch buffer a comparison might use) and differ only behind it
        fam = st.fixed_dictionaries({"kind": st.just("family"), "prefix_len": st.sampled_from([7, 8, 15, 16, 30, 31, 32, 33, 62, 63, 64, 65, 127, 128, 255, 256, 1000]),
                                     "prefix_kind": st.integers(0, 3), "n": st.integers(3, 24), "rseed": st.integers(0, 2 ** 31), "cs": st.integers(0, 1),
                                     "via": st.sampled_from([0, 0, 1, 2, 3])})
        return gens.weighted((79, main), (1, big), (8, fam))

    def run_big(self, lib, case, stats):
        msg = ctypes.create_string_buffer(200)
        live = lib.ledger_live()
        n = case["n"]
        if case["how"] != 0:
            # through the utilities the size stays moderate: nothing promises that patch 'test' or the generators are better than
            # quadratic in the number of members (a pairwise key lookup instead of a sort would be a legitimate implementation)
            n = min(n, 20000)
        rc = lib.shim_big_sort(n, case["order"], case["cs"], case["how"], msg, 200)
        stats.inner += 1
        stats.cls("big_object")
        if n > 10001:
            stats.cls("big_object>10001")
        stats.nontriv(["big", case["n"], case["order"], case["cs"], case["how"]], dict(case))
        if rc < 0:
            raise RuntimeError("harness: shim_big_sort: " + msg.value.decode())
        if rc:
            raise Violation("object of %d members (key order class %d, %s, via %s): %s" % (
                n, case["order"], "case-sensitive" if case["cs"] else "case-insensitive",
                ["SortObject", "patch test", "GeneratePatches", "GenerateMergePatch"][case["how"]], msg.value.decode()), key="big:%d" % rc)
        if lib.ledger_live() != live:
            raise Violation("blocks left allocated after sorting a large object", key="leak")

    def run_family(self, lib, case, stats):
        import random
        from .. import printing
        rnd = random.Random(case["rseed"])
        L = case["prefix_len"]
        prefix = [b"com.example.Service.Endpoint.", b"k", b"Ab", b"\xc3\xa9z"][case["prefix_kind"]]
        prefix = (prefix * (L // len(prefix) + 1))[:L]
        tails = [b"", b"a", b"b", b"B", b"A", b"aa", b"ab", b"Z", b"z", b"0", b"~", b"_", b"alpha", b"Alpha", b"ALPHA", b"beta", b"a" * 40, b"a" * 39 + b"b", b"\xc3\xa9", b"[", b"{", b"@", b"`"]
        keys = []
        for _ in range(case["n"]):
            k = (prefix if rnd.random() < 0.8 else prefix.swapcase()) + rnd.choice(tails)
            if k not in keys and (case["cs"] or all(model.fold(k) != model.fold(x) for x in keys)):
                keys.append(k)
        if len(keys) < 3:
            keys = [prefix + t for t in (b"b", b"a", b"c")]
        cs = case["cs"]
        fold = (lambda x: x) if cs else model.fold
        if case["rseed"] % 3 == 0:
            # members arrive in strictly descending (or ascending) order: the extreme inputs of any sorting algorithm
            keys.sort(key=fold, reverse=(case["rseed"] % 6 == 0))
            stats.cls("family_in_monotone_order")
        obj = lib.cJSON_CreateObject()
        for i, k in enumerate(keys):
            lib.cJSON_AddItemToObject(obj, k, lib.cJSON_CreateNumber(float(i)))
        other = None
        stats.cls("key_family")
        stats.nontriv(["family", L, case["prefix_kind"], keys, cs, case["via"]], {"common_prefix_bytes": L, "members": len(keys), "case_sensitive": bool(cs), "via": case["via"]})
        try:
            via = case["via"]
            if via == 0:
                (lib.cJSONUtils_SortObjectCaseSensitive if cs else lib.cJSONUtils_SortObject)(obj)
            else:
                other = lib.cJSON_Duplicate(obj, 1)
                lib.cJSON_AddItemToObject(other, prefix + b"one more", lib.cJSON_CreateTrue())
                if via == 1:
                    p = (lib.cJSONUtils_GeneratePatchesCaseSensitive if cs else lib.cJSONUtils_GeneratePatches)(obj, other)
                elif via == 2:
                    p = (lib.cJSONUtils_GenerateMergePatchCaseSensitive if cs else lib.cJSONUtils_GenerateMergePatch)(obj, other)
                else:
                    p = lib.cJSON_CreateArray()
                    op = lib.cJSON_CreateObject()
                    lib.cJSON_AddItemToObject(op, b"op", lib.cJSON_CreateString(b"test"))
                    lib.cJSON_AddItemToObject(op, b"path", lib.cJSON_CreateString(b""))
                    lib.cJSON_AddItemToObject(op, b"value", lib.cJSON_Duplicate(other, 1))
                    lib.cJSON_AddItemToArray(p, op)
                    (lib.cJSONUtils_ApplyPatchesCaseSensitive if cs else lib.cJSONUtils_ApplyPatches)(obj, p)
                if p:
                    lib.cJSON_Delete(p)
            for tree in (obj, other):
                if not tree or (tree == other and via == 3):      # (the patch held a copy of `other`, not `other` itself)
                    continue
                got = [ctypes.string_at(lib.shim_key(k)) for k in lib.children(tree)]
                want_n = len(keys) + (1 if tree == other else 0)
                if sorted(got) != sorted(keys + ([prefix + b"one more"] if tree == other else [])) or len(got) != want_n:
                    raise Violation("after sorting (%s), the members are no longer the same: %d before, %d after" % (["SortObject", "GeneratePatches", "GenerateMergePatch", "patch test"][via], want_n, len(got)), key="family-members")
                bad = [i for i in range(len(got) - 1) if fold(got[i]) > fold(got[i + 1])]
                if bad:
                    i = bad[0]
                    raise Violation("after sorting (%s, %s) %r comes before %r (names with a common beginning of %d bytes)" % (
                        ["SortObject", "GeneratePatches", "GenerateMergePatch", "patch test"][via], "case-sensitive" if cs else "case-insensitive",
                        got[i][-24:], got[i + 1][-24:], L), key="family-order")
                fl, _, _ = lib.walk(tree, 1, 1)
                if fl:
                    raise Violation("structural defects after sorting names with a long common beginning", key="family-structure")
                # a well-formed container afterwards: a member in the middle can be taken out and put back, an append lands at the end
                kids0 = lib.children(tree)
                if len(kids0) >= 3:
                    mid = kids0[len(kids0) // 2]
                    mk = ctypes.string_at(lib.shim_key(mid))
                    got_mid = lib.cJSON_DetachItemViaPointer(tree, mid)
                    if got_mid != mid or len(lib.children(tree)) != len(kids0) - 1 or lib.walk(tree, 1, 1)[0]:
                        raise Violation("taking a middle member out of a freshly sorted object damages it (%d members left of %d)" % (len(lib.children(tree)), len(kids0)), key="family-detach")
                    lib.cJSON_InsertItemInArray(tree, len(kids0) // 2, mid)
                    if [k for k in lib.children(tree)] != kids0 or lib.walk(tree, 1, 1)[0]:
                        raise Violation("putting the member back where it was does not restore the list", key="family-detach")
                lib.cJSON_AddItemToObject(tree, b"appended afterwards", lib.cJSON_CreateNull())
                kids = lib.children(tree)
                if len(kids) != want_n + 1 or ctypes.string_at(lib.shim_key(kids[-1])) != b"appended afterwards":
                    raise Violation("an append after the sort does not land at the end of a complete list (%d members, expected %d)" % (len(kids), want_n + 1), key="family-append")
            if via == 0:
                before = [ctypes.string_at(lib.shim_key(k)) for k in lib.children(obj)][:-1]
                lib.cJSON_Delete(lib.cJSON_DetachItemFromObjectCaseSensitive(obj, b"appended afterwards"))
                (lib.cJSONUtils_SortObjectCaseSensitive if cs else lib.cJSONUtils_SortObject)(obj)
                again = [ctypes.string_at(lib.shim_key(k)) for k in lib.children(obj)]
                if [fold(x) for x in again] != [fold(x) for x in before]:
                    raise Violation("sorting a sorted object again changes the order of its names", key="family-idempotence")
        finally:
            lib.cJSON_Delete(obj)
            if other:
                lib.cJSON_Delete(other)
        if lib.ledger_live() != 0:
            raise Violation("blocks left allocated after sorting", key="leak")

    def run_case(self, lib, case, stats):
        if case.get("kind") == "big":
            return self.run_big(lib, case, stats)
        if case.get("kind") == "family":
            return self.run_family(lib, case, stats)
        w, it = run_program(lib, case, stats)
        stats.inner += w.steps
        for f in it.feat:
            stats.cls(f)
        # an append after a sort of an unsorted object
        seen_sort = False
        nontrivial = False
        for d in it.transcript:
            if d.startswith("sort(") and "reordered" in d and int(d.split("n=")[1].split(",")[0]) >= 3:
                seen_sort = True
            elif d in ("patch_test", "generate_patches", "generate_merge_patch"):
                seen_sort = True
            elif seen_sort and (d.startswith("add_") or d.startswith("insert(")) and "NULL" not in d and "self" not in d:
                nontrivial = True
        if nontrivial:
            stats.cls("nontrivial_program")
            stats.nontriv(case, {"ops": [d for d in it.transcript if d != "skip"][:40]})
        if lib.ledger_live() != 0:
            raise Violation("blocks still allocated after deleting every root (%d)" % lib.ledger_live(), key="leak")
        s = lib.stats()
        if s.foreign_free or s.cross_free:
            raise Violation("foreign or double free", key="free")

    def shrink_candidates(self, case):
        if case.get("kind") == "big":
            return [dict(case, n=n) for n in (1000, 10002, 20000, 150000) if n < case["n"]]
        ops = case["ops"]
        out = [dict(case, ops=ops[:i] + ops[i + 1:]) for i in range(len(ops))]
        for i in range(len(case.get("seeds", []))):
            out.append(dict(case, seeds=case["seeds"][:i] + case["seeds"][i + 1:]))
        return out[:60]


PROP = C19()
