/* Tracking allocator ("ledger") and link-time interposition of the C allocator.
 *
 * Every object that is linked together with this file is linked with
 *   -Wl,--wrap=malloc,--wrap=free,--wrap=realloc,--wrap=calloc
 * so that every allocator reference made by cJSON.c / cJSON_Utils.c (including the
 * function addresses stored in cJSON's default hook table) lands in __wrap_*.
 * The harness' own memory uses probe_malloc/probe_free (== __real_*), therefore every
 * __wrap_* call is a call made by library code.
 *
 * One table records every live block together with the side it came from
 * (hook side: ledger_malloc; libc side: __wrap_malloc/realloc/calloc).
 * Not thread-safe (the TSan driver does not use it).
 */
#include <stdlib.h>
#include <string.h>
#include <stdio.h>
#include "probe.h"

void *__real_malloc(size_t);
void *__real_realloc(void *, size_t);
void *__real_calloc(size_t, size_t);
void __real_free(void *);

void *probe_malloc(size_t n) { return __real_malloc(n); }
void *probe_realloc(void *p, size_t n) { return __real_realloc(p, n); }
void probe_free(void *p) { __real_free(p); }

#define SIDE_HOOK 1
#define SIDE_LIBC 2

typedef struct
{
    uintptr_t ptr; /* 0 empty, 1 tombstone */
    size_t size;
    uint64_t serial;
    int side;
} entry_t;

static entry_t *table = NULL;
static size_t cap = 0;     /* power of two */
static size_t used = 0;    /* live + tombstones */
static ledger_stats_t st;
static uint64_t fail_at = 0;
static int mode = LG_DEFAULT;

/* triage aid: with VERIF_LEDGER_FORWARD set, a foreign/double free is forwarded to the real allocator so that
 * AddressSanitizer reports it with both stacks */
static void foreign(void *p)
{
    st.foreign_free++;
    if (getenv("VERIF_LEDGER_FORWARD") != NULL)
    {
        __real_free(p);
    }
}

static size_t hash_ptr(uintptr_t p)
{
    uint64_t x = (uint64_t)p;
    x ^= x >> 33;
    x *= 0xff51afd7ed558ccdULL;
    x ^= x >> 33;
    return (size_t)x;
}

static void table_insert_raw(entry_t *t, size_t c, entry_t e)
{
    size_t i = hash_ptr(e.ptr) & (c - 1);
    while (t[i].ptr > 1)
    {
        i = (i + 1) & (c - 1);
    }
    t[i] = e;
}

static void table_grow(void)
{
    /* rehash only live entries; if mostly tombstones keep the size */
    size_t ncap = (cap == 0) ? 4096 : ((st.live * 4 < cap) ? cap : cap * 2);
    entry_t *nt = (entry_t *)__real_calloc(ncap, sizeof(entry_t));
    size_t i;
    if (nt == NULL)
    {
        harness_die("ledger: out of memory");
    }
    for (i = 0; i < cap; i++)
    {
        if (table[i].ptr > 1)
        {
            table_insert_raw(nt, ncap, table[i]);
        }
    }
    __real_free(table);
    table = nt;
    cap = ncap;
    used = (size_t)st.live;
}

static entry_t *table_find(const void *p)
{
    size_t i;
    size_t n = 0;
    if (cap == 0 || p == NULL)
    {
        return NULL;
    }
    i = hash_ptr((uintptr_t)p) & (cap - 1);
    while (table[i].ptr != 0 && n < cap)
    {
        if (table[i].ptr == (uintptr_t)p)
        {
            return &table[i];
        }
        i = (i + 1) & (cap - 1);
        n++;
    }
    return NULL;
}

static void record(void *p, size_t n, int side)
{
    entry_t e;
    if ((used + 1) * 2 > cap)
    {
        table_grow();
    }
    e.ptr = (uintptr_t)p;
    e.size = n;
    e.serial = ++st.serial;
    e.side = side;
    table_insert_raw(table, cap, e);
    used++;
    st.live++;
    st.live_bytes += n;
}

static void unrecord(entry_t *e)
{
    st.live--;
    st.live_bytes -= e->size;
    e->ptr = 1;
}

/* returns 1 if this request must be refused */
static int request(void)
{
    st.requests++;
    if (fail_at != 0 && st.requests == fail_at)
    {
        fail_at = 0;
        st.failed++;
        return 1;
    }
    return 0;
}

/* ---------------- packed placement ----------------
 * Optionally the hook allocator hands out blocks that lie DIRECTLY behind one another (8-byte granules, no allocator
 * headers, no redzones): consecutive requests are neighbours, a string created after another one starts a few dozen
 * bytes above it.  Code that compares or subtracts addresses of different blocks (overlap tests) behaves differently
 * then than under an allocator that keeps blocks far apart.  Unallocated and released bytes stay poisoned for ASan. */
#include <sys/mman.h>
#if defined(__SANITIZE_ADDRESS__)
#include <sanitizer/asan_interface.h>
#define PACK_POISON(p, n) ASAN_POISON_MEMORY_REGION((p), (n))
#define PACK_UNPOISON(p, n) ASAN_UNPOISON_MEMORY_REGION((p), (n))
#else
#define PACK_POISON(p, n) ((void)(p), (void)(n))
#define PACK_UNPOISON(p, n) ((void)(p), (void)(n))
#endif
#define PACK_CAP ((size_t)512 << 20)
static unsigned char *pack_arena = NULL;
static size_t pack_off = 0;
static int packed = 0;

void ledger_set_packed(int on)
{
    if (on && pack_arena == NULL)
    {
        pack_arena = (unsigned char *)mmap(NULL, PACK_CAP, PROT_READ | PROT_WRITE, MAP_PRIVATE | MAP_ANONYMOUS | MAP_NORESERVE, -1, 0);
        if (pack_arena == (unsigned char *)MAP_FAILED)
        {
            harness_die("ledger: cannot map the packed arena");
        }
        PACK_POISON(pack_arena, PACK_CAP);
    }
    if (st.live == 0 && pack_arena != NULL)
    {
        pack_off = 0;   /* nothing is live: start from the bottom again (everything below is poisoned already) */
    }
    packed = on;
}

static int in_pack_arena(const void *p)
{
    return pack_arena != NULL && (const unsigned char *)p >= pack_arena && (const unsigned char *)p < pack_arena + PACK_CAP;
}

/* ---------------- hook side ---------------- */
void *ledger_malloc(size_t n)
{
    void *p;
    st.hook_malloc++;
    if (request())
    {
        return NULL;
    }
    if (packed)
    {
        size_t need = (n + 7u) & ~(size_t)7u;
        if (need == 0)
        {
            need = 8;
        }
        if (pack_off + need > PACK_CAP)
        {
            harness_die("ledger: packed arena exhausted");
        }
        p = pack_arena + pack_off;
        pack_off += need;
        PACK_UNPOISON(p, n);
        record(p, n, SIDE_HOOK);
        return p;
    }
    p = __real_malloc(n);
    if (p != NULL)
    {
        record(p, n, SIDE_HOOK);
    }
    return p;
}

void ledger_free(void *p)
{
    entry_t *e;
    st.hook_free++;
    if (p == NULL)
    {
        st.hook_free_null++;
        return;
    }
    e = table_find(p);
    if (e == NULL)
    {
        foreign(p);
        return; /* not forwarded */
    }
    if (e->side != SIDE_HOOK)
    {
        st.cross_free++;
    }
    if (in_pack_arena(p))
    {
        size_t n = (e->size + 7u) & ~(size_t)7u;
        unrecord(e);
        PACK_POISON(p, n ? n : 8);
        return;
    }
    unrecord(e);
    __real_free(p);
}

/* ---------------- libc side ---------------- */
void *__wrap_malloc(size_t n)
{
    void *p;
    st.wrap_malloc++;
    if (request())
    {
        return NULL;
    }
    p = __real_malloc(n);
    if (p != NULL)
    {
        record(p, n, SIDE_LIBC);
    }
    return p;
}

void *__wrap_calloc(size_t a, size_t b)
{
    void *p;
    st.wrap_calloc++;
    if (request())
    {
        return NULL;
    }
    p = __real_calloc(a, b);
    if (p != NULL)
    {
        record(p, a * b, SIDE_LIBC);
    }
    return p;
}

void *__wrap_realloc(void *old, size_t n)
{
    void *p;
    entry_t *e = NULL;
    int side = SIDE_LIBC;
    st.wrap_realloc++;
    if (request())
    {
        return NULL; /* old block stays valid, as with realloc */
    }
    if (old != NULL)
    {
        e = table_find(old);
        if (e == NULL)
        {
            st.foreign_free++;
            return NULL;
        }
        if (e->side != SIDE_LIBC)
        {
            st.cross_free++;
        }
        side = e->side;
    }
    p = __real_realloc(old, n);
    if (p == NULL)
    {
        return NULL;
    }
    if (e != NULL)
    {
        /* table may not have moved: no allocation of ours in between */
        unrecord(e);
    }
    record(p, n, side);
    return p;
}

void __wrap_free(void *p)
{
    entry_t *e;
    st.wrap_free++;
    if (p == NULL)
    {
        st.wrap_free_null++;
        return;
    }
    e = table_find(p);
    if (e == NULL)
    {
        foreign(p);
        return;
    }
    if (e->side != SIDE_LIBC)
    {
        st.cross_free++;
    }
    unrecord(e);
    __real_free(p);
}

/* ---------------- control ---------------- */
void ledger_install(int m)
{
    cJSON_Hooks h;
    mode = m;
    switch (m)
    {
        case LG_BOTH:
            h.malloc_fn = ledger_malloc;
            h.free_fn = ledger_free;
            cJSON_InitHooks(&h);
            break;
        case LG_MALLOC_ONLY:
            h.malloc_fn = ledger_malloc;
            h.free_fn = NULL;
            cJSON_InitHooks(&h);
            break;
        case LG_FREE_ONLY:
            h.malloc_fn = NULL;
            h.free_fn = ledger_free;
            cJSON_InitHooks(&h);
            break;
        case LG_NULL_MEMBERS:
            h.malloc_fn = NULL;
            h.free_fn = NULL;
            cJSON_InitHooks(&h);
            break;
        default:
            cJSON_InitHooks(NULL);
            break;
    }
}

int ledger_mode(void) { return mode; }

void ledger_get(ledger_stats_t *out) { *out = st; }

void ledger_reset_counters(void)
{
    uint64_t live = st.live, bytes = st.live_bytes, serial = st.serial;
    memset(&st, 0, sizeof(st));
    st.live = live;
    st.live_bytes = bytes;
    st.serial = serial;
    fail_at = 0;
}

void ledger_arm(uint64_t k)
{
    st.requests = 0;
    fail_at = k;
}

uint64_t ledger_requests(void) { return st.requests; }
uint64_t ledger_serial(void) { return st.serial; }
uint64_t ledger_live(void) { return st.live; }

uint64_t ledger_live_since(uint64_t mark)
{
    size_t i;
    uint64_t n = 0;
    for (i = 0; i < cap; i++)
    {
        if (table[i].ptr > 1 && table[i].serial > mark)
        {
            n++;
        }
    }
    return n;
}

int ledger_is_live(const void *p) { return table_find(p) != NULL; }

void ledger_forget_all(void)
{
    if (table != NULL)
    {
        memset(table, 0, cap * sizeof(entry_t));
    }
    used = 0;
    st.live = 0;
    st.live_bytes = 0;
}
