"""Orchestration of one check: build, regression replays, known-finding witnesses, parallel
Hypothesis workers, libFuzzer campaigns, crash triage, evidence, exit status."""
import glob
import hashlib
import json
import os
import re
import shutil
import subprocess
import sys
import time

from . import build, core
from .worker import load_prop

ROOT = build.ROOT
PY = sys.executable
EVIDENCE_DIR = os.path.join(ROOT, "evidence")
if os.path.realpath(build.REPO) != "/repo" or os.environ.get("VERIF_SCRATCH_EVIDENCE"):
    # self-test runs against a scratch copy must not overwrite the evidence of the real tree
    EVIDENCE_DIR = os.path.join(ROOT, "build", "evidence.scratch")
FOUND_DIR = os.path.join(ROOT, "replays", "found")
if os.path.realpath(build.REPO) != "/repo":
    FOUND_DIR = os.path.join(ROOT, "build", "found.scratch")
KEEP_DIR = os.path.join(ROOT, "replays", "keep")
KNOWN_DIR = os.path.join(ROOT, "replays", "known")
KNOWN_FILE = os.path.join(ROOT, "KNOWN_FINDINGS.txt")
PRELUDE_S = int(os.environ.get("VERIF_PRELUDE_S", "7200"))   # limit for one step of a worker's prelude (exhaustive sweeps in C)
HANG_S = int(os.environ.get("VERIF_HANG_S", "150"))   # no generated case takes more than a few seconds; a replay that exceeds this is a hang


def log(*a):
    print(*a, file=sys.stderr, flush=True)


def derive_seed(base, pid, i):
    h = hashlib.sha256(("%d/%s/%d" % (base, pid, i)).encode()).digest()
    return int.from_bytes(h[:4], "big") or 1


def read_known():
    """returns list of dicts(kind, property, key, text, witness)"""
    out = []
    if not os.path.isfile(KNOWN_FILE):
        return out
    for line in open(KNOWN_FILE):
        line = line.strip()
        if not line or line.startswith("#"):
            continue
        m = re.match(r"^(known|fixed):\s+property=(\S+)\s+(.*)$", line)
        if not m:
            continue
        kind, pid, rest = m.groups()
        d = {"kind": kind, "property": pid, "text": rest, "key": None, "witness": None}
        mk = re.search(r"key=(\S+)", rest)
        if mk:
            d["key"] = mk.group(1)
        mw = re.search(r"witness=(\S+)", rest)
        if mw:
            d["witness"] = mw.group(1)
        out.append(d)
    return out


class Check:
    def __init__(self, pid, tier, seed):
        self.pid = pid
        self.tier = tier
        self.seed = seed
        self.prop = load_prop(pid)
        self.t0 = time.time()
        self.bdir = None
        self.shim = None
        self.env = None
        self.violations = []     # list of (replay_path, msg)
        self.known_lines = []
        self.harness_errors = []
        self.merged = core.Stats()
        self.fuzz_execs = 0
        self.fuzz_info = []
        self.notes = []

    # ------------------------------------------------------------ build
    def do_build(self):
        self.bdir = build.make_build_dir(self.pid)
        t = time.time()
        self.shim = build.build_shim(self.bdir)
        self.env = build.sanitizer_env()
        self.env["VERIF_BUILD_DIR"] = self.bdir
        if getattr(self.prop, "NEEDS_TSAN", False):
            self.env["VERIF_TSAN_DRIVER"] = build.build_tsan(self.bdir)
        self.fuzz_exes = {}
        for plan in self.prop.fuzz_plan(self.tier):
            tgt = plan["target"]
            if tgt not in self.fuzz_exes:
                self.fuzz_exes[tgt] = build.build_fuzzer(self.bdir, tgt)
        log("[%s] built in %.1fs from %s" % (self.pid, time.time() - t, build.REPO))

    # ------------------------------------------------------------ workers
    def worker_cmd(self, out, extra):
        return [PY, "-m", "verif.worker", "--prop", self.pid, "--lib", self.shim,
                "--tier", self.tier, "--out", out] + extra

    def run_worker_sync(self, name, extra, timeout=None):
        out = os.path.join(self.bdir, name + ".json")
        last = os.path.join(self.bdir, name + ".last")
        try:
            p = subprocess.run(self.worker_cmd(out, ["--lastcase", last] + extra), cwd=ROOT, env=self.env,
                               stdout=subprocess.PIPE, stderr=subprocess.PIPE, text=True, errors="replace",
                               timeout=timeout or (HANG_S + 60 * max(1, extra.count("--replay"))), preexec_fn=_limit_stack)
        except subprocess.TimeoutExpired:
            # a replay that does not come back: reported like a crash (exit code -999 = did not terminate)
            return -999, None, "timeout: the replay did not finish (a library call does not terminate)", last
        res = None
        if p.returncode in (0, 3) and os.path.isfile(out):
            res = json.load(open(out))
        return p.returncode, res, p.stderr, last

    def replay_case_fails(self, case_path, times=1, need=None):
        """True if replaying the case file fails (violation or crash) at least `need` of `times` times"""
        need = times if need is None else need
        fails = 0
        for k in range(times):
            rc, res, err, _ = self.run_worker_sync("replay", ["--replay", case_path])
            if rc in (3, 97):
                self.harness_errors.append(res["harness_error"] if res else err)
                return False
            if rc == 0:
                if res and res["replayed"] and res["replayed"][0]["failed"]:
                    fails += 1
            else:
                fails += 1   # crash
            if fails >= need:
                return True
            if fails + (times - k - 1) < need:
                return False
        return fails >= need

    def replay_msg(self, case_path):
        rc, res, err, _ = self.run_worker_sync("replay", ["--replay", case_path])
        if rc == 0 and res and res["replayed"]:
            r = res["replayed"][0]
            return r["failed"], r.get("msg", ""), r.get("key")
        if rc in (3, 97):
            self.harness_errors.append(res["harness_error"] if res else err)
            return False, "harness error", None
        return True, "crash (exit %s): %s" % (rc, summarize_sanitizer(err)), crash_key(err)

    def save_found(self, case, msg, key, tag=""):
        os.makedirs(FOUND_DIR, exist_ok=True)
        text = core.dumps({"property": self.pid, "case": case, "msg": msg, "key": key})
        h = hashlib.sha256(core.dumps(case).encode()).hexdigest()[:12]
        path = os.path.join(FOUND_DIR, "%s-%s%s.json" % (self.pid, tag, h))
        with open(path, "w") as f:
            f.write(text + "\n")
        return path

    def confirm_and_report(self, case, msg, key, tag=""):
        path = self.save_found(case, msg, key, tag)
        if self.replay_case_fails(path, times=self.prop.CONFIRM_TRIES, need=self.prop.CONFIRM_NEED):
            self.violations.append((path, msg))
            return True
        self.notes.append("candidate failure did not reproduce 3x and was dropped: %s (%s)" % (path, msg))
        log("[%s] NOT REPRODUCIBLE: %s" % (self.pid, msg))
        try:
            os.unlink(path)
        except OSError:
            pass
        return False

    # ------------------------------------------------------------ phases
    def phase_keep(self):
        files = sorted(glob.glob(os.path.join(KEEP_DIR, self.pid, "*.json")))
        if not files:
            return
        extra = []
        for f in files:
            extra += ["--replay", f]
        rc, res, err, last = self.run_worker_sync("keep", extra)
        if rc == 0 and res:
            self.merge(res)
            for r in res["replayed"]:
                if r["failed"]:
                    if self.replay_case_fails(r["path"], times=2):
                        self.violations.append((r["path"], r.get("msg", "")))
        elif rc == 3:
            self.harness_errors.append(res["harness_error"] if res else err)
        else:
            # crash inside the batch: find the file by replaying one by one
            for f in files:
                if self.replay_case_fails(f, times=2):
                    failed, msg, _ = self.replay_msg(f)
                    self.violations.append((f, msg))
                    break
        log("[%s] regression tier: %d saved cases replayed" % (self.pid, len(files)))

    def phase_known(self):
        for k in read_known():
            if k["property"] != self.pid or k["kind"] != "known":
                continue
            if not k["witness"]:
                continue
            path = os.path.join(ROOT, k["witness"])
            failed, msg, _ = self.replay_msg(path)
            if failed:
                line = "KNOWN-FINDING: property=%s %s" % (self.pid, k["text"])
                self.known_lines.append(line)
                print(line, flush=True)
            else:
                self.notes.append("known finding no longer reproduces: %s" % k["text"])
                log("[%s] known finding no longer reproduces: %s" % (self.pid, k["text"]))

    def merge(self, res):
        s = res.get("stats")
        if not s:
            return
        self.merged.evaluations += s["evaluations"]
        self.merged.inner += s["inner"]
        for k, v in s["classes"].items():
            self.merged.cls(k, v)
        for k, v in s["excluded"].items():
            self.merged.exclude(k, v)
        self.merged.nontrivial.update(s["nontrivial"])
        self.merged.enumerated_nontrivial += s.get("enumerated_nontrivial", 0)
        for smp in s["samples"][-3:]:
            if len(self.merged.samples) < 8:
                self.merged.samples.append(smp)

    def phase_search(self):
        b = self.prop.budget(self.tier)
        plans = self.prop.fuzz_plan(self.tier)
        procs = []
        for i in range(b["workers"]):
            out = os.path.join(self.bdir, "w%d.json" % i)
            last = os.path.join(self.bdir, "w%d.last" % i)
            errf = open(os.path.join(self.bdir, "w%d.err" % i), "w")
            cmd = self.worker_cmd(out, ["--seed", str(derive_seed(self.seed, self.pid, i)),
                                        "--examples", str(b["examples"]), "--lastcase", last,
                                        "--index", str(i), "--nworkers", str(b["workers"])])
            p = subprocess.Popen(cmd, cwd=ROOT, env=self.env, stdout=subprocess.DEVNULL, stderr=errf,
                                 preexec_fn=_limit_stack)
            procs.append((i, p, out, last, errf))
        fuzz = self.start_fuzzers(plans)
        # watchdog: a worker whose current case has not changed for HANG_S seconds is stuck inside one library call
        # (termination is part of several properties); it is killed and its case becomes a hang candidate
        hung = {}
        pending = dict((i, (p, last)) for i, p, out, last, errf in procs)
        while pending:
            time.sleep(1.0)
            now = time.time()
            for i in list(pending):
                p, last = pending[i]
                if p.poll() is not None:
                    del pending[i]
                    continue
                try:
                    age = now - max(os.path.getmtime(last), os.path.getmtime(last + ".search"))
                except OSError:
                    # still in its cold-start probes (which carry their own limit) or in its prelude: deterministic sweeps that
                    # are long single steps by design - only a very generous limit applies there
                    try:
                        age = (now - os.path.getmtime(last)) - (PRELUDE_S - HANG_S)
                    except OSError:
                        age = 0
                if age > HANG_S:
                    try:
                        hung[i] = core.loads(open(last).read())
                    except Exception:
                        hung[i] = None
                    p.kill()
                    del pending[i]
        # collect workers
        for i, p, out, last, errf in procs:
            rc = p.wait()
            errf.close()
            if i in hung:
                if hung[i] is not None and not self.violations:
                    self.confirm_and_report(hung[i], "the case did not finish within %d s (a library call does not terminate)" % HANG_S, "hang", tag="hang-")
                continue
            err = open(errf.name).read()
            if rc == 0 and os.path.isfile(out):
                res = json.load(open(out))
                self.merge(res)
                if res["failure"] and not self.violations:
                    f = res["failure"]
                    self.confirm_and_report(core.dec(f["case"]), f["msg"], f["key"])
            elif rc == 3:
                res = json.load(open(out)) if os.path.isfile(out) else None
                self.harness_errors.append(res["harness_error"] if res else err[-4000:])
            elif rc in (1, 2, 97):
                # an uncaught Python exception in the worker, or the native probe layer giving up (97): a broken harness, never a verdict
                self.harness_errors.append("worker %d exited %d: %s" % (i, rc, err[-3000:]))
            else:
                # crash: candidate is the last case written
                if self.violations:
                    continue
                try:
                    case = core.loads(open(last).read())
                except Exception:
                    self.harness_errors.append("worker %d died (rc=%s) without a last case: %s" % (i, rc, err[-2000:]))
                    continue
                msg = "crash (exit %s): %s" % (rc, summarize_sanitizer(err))
                case = self.minimise_crash(case)
                self.confirm_and_report(case, msg, crash_key(err), tag="crash-")
        self.collect_fuzzers(fuzz)

    def minimise_crash(self, case, budget=40):
        """greedy minimisation for crashes (sanitizer aborts bypass Hypothesis shrinking)"""
        tmp = os.path.join(self.bdir, "min.json")
        n = 0
        improved = True
        while improved and n < budget:
            improved = False
            for cand in self.prop.shrink_candidates(case):
                n += 1
                if n > budget:
                    break
                with open(tmp, "w") as f:
                    f.write(core.dumps({"property": self.pid, "case": cand}))
                rc, res, err, _ = self.run_worker_sync("min", ["--replay", tmp])
                if rc not in (0, 3, 97):
                    case = cand
                    improved = True
                    break
        return case

    # ------------------------------------------------------------ libFuzzer
    def start_fuzzers(self, plans):
        running = []
        idx = 0
        for plan in plans:
            exe = self.fuzz_exes[plan["target"]]
            for j in range(plan["procs"]):
                d = os.path.join(self.bdir, "fz%d" % idx)
                corpus = os.path.join(d, "corpus")
                art = os.path.join(d, "art")
                os.makedirs(corpus)
                os.makedirs(art)
                use_seeds = not (plan.get("empty_corpus_procs", 0) > j)
                if use_seeds:
                    k = 0
                    prefixes = plan.get("seed_prefixes") or [b""]
                    for cdir in plan.get("corpus", []):
                        for f in sorted(glob.glob(os.path.join(cdir, "*"))):
                            if os.path.isfile(f) and os.path.getsize(f) <= plan.get("max_len", 512):
                                with open(os.path.join(corpus, "s%04d" % k), "wb") as g:
                                    g.write(prefixes[(k + j) % len(prefixes)] + open(f, "rb").read())
                                k += 1
                    for blob in plan.get("seeds", []):
                        with open(os.path.join(corpus, "g%04d" % k), "wb") as g:
                            g.write(blob)
                        k += 1
                statsf = os.path.join(d, "stats.json")
                cmd = [exe, corpus, "-runs=%d" % plan["runs"], "-seed=%d" % derive_seed(self.seed, self.pid, 1000 + idx),
                       "-max_len=%d" % plan.get("max_len", 512), "-timeout=%d" % plan.get("timeout", 10),
                       "-rss_limit_mb=3000", "-artifact_prefix=" + art + "/", "-print_final_stats=1",
                       "-entropic=0", "-verbosity=0", "-close_fd_mask=0"]
                if plan.get("dict"):
                    # the repository's dictionary plus the harness' own tokens
                    from . import fuzzplan as _fp
                    merged = os.path.join(d, "merged.dict")
                    with open(merged, "wb") as g:
                        g.write(open(plan["dict"], "rb").read())
                        g.write(b"\n")
                        for tok in getattr(_fp, "EXTRA_TOKENS", []):
                            g.write(b'"' + b"".join(b"\\x%02x" % c for c in tok) + b'"\n')
                    cmd.append("-dict=" + merged)
                if plan.get("len_control") is not None:
                    cmd.append("-len_control=%d" % plan["len_control"])
                env = dict(os.environ)
                env["ASAN_OPTIONS"] = "detect_leaks=1:exitcode=86:allocator_may_return_null=1:handle_segv=1"
                env["UBSAN_OPTIONS"] = "print_stacktrace=1:halt_on_error=1:exitcode=86"
                env["VERIF_FZ_STATS"] = statsf
                env["VERIF_FZ_PROP"] = self.pid
                logf = open(os.path.join(d, "log"), "w")
                p = subprocess.Popen(cmd, cwd=d, env=env, stdout=logf, stderr=subprocess.STDOUT,
                                     preexec_fn=_limit_stack)
                running.append({"plan": plan, "p": p, "dir": d, "art": art, "stats": statsf, "log": logf, "exe": exe})
                idx += 1
        return running

    def collect_fuzzers(self, running):
        for r in running:
            rc = r["p"].wait()
            r["log"].close()
            text = open(r["log"].name, errors="replace").read()
            m = re.search(r"stat::number_of_executed_units:\s*(\d+)", text)
            execs = int(m.group(1)) if m else 0
            tgt = r["plan"]["target"]
            info = {"target": tgt, "execs": execs, "rc": rc}
            if os.path.isfile(r["stats"]):
                try:
                    s = json.load(open(r["stats"]))
                    if not m:
                        execs = s.get("execs", 0)
                        info["execs"] = execs
                    for k, v in s.get("classes", {}).items():
                        self.merged.cls("fz:" + k, v)
                    for smp in s.get("samples", [])[:2]:
                        if len(self.merged.samples) < 10:
                            self.merged.samples.append({"fuzz_target": tgt, "input_hex": smp})
                    hf = r["stats"] + ".hashes"
                    if os.path.isfile(hf):
                        data = open(hf, "rb").read()
                        for o in range(0, len(data) - 7, 8):
                            self.merged.nontrivial.add(int.from_bytes(data[o:o + 8], "little"))
                except Exception as e:
                    self.notes.append("fuzz stats unreadable: %r" % e)
            self.fuzz_execs += execs
            self.fuzz_info.append(info)
            arts = sorted(glob.glob(os.path.join(r["art"], "*")))
            for a in arts:
                base = os.path.basename(a)
                if base.startswith("crash-") or base.startswith("leak-"):
                    if not self.violations:
                        self.triage_fuzz_artifact(r, a, text)
                elif base.startswith("timeout-") or base.startswith("oom-") or base.startswith("slow-unit-"):
                    if base.startswith("timeout-") and not self.violations:
                        try:
                            p = subprocess.run([r["exe"], a], cwd=r["dir"], stdout=subprocess.PIPE,
                                               stderr=subprocess.STDOUT, timeout=200,
                                               env=dict(os.environ, ASAN_OPTIONS="detect_leaks=0:exitcode=86"))
                            self.notes.append("libFuzzer %s replayed alone: exit %d (load noise)" % (base, p.returncode))
                        except subprocess.TimeoutExpired:
                            dst = self.copy_artifact(tgt, a)
                            self.violations.append((dst, "input does not terminate within 200 s"))
                    else:
                        self.notes.append("libFuzzer %s ignored (load noise)" % base)
            if rc != 0 and not arts and not self.violations:
                self.notes.append("fuzzer %s exited %d without artifact: %s" % (tgt, rc, text[-500:]))

    def copy_artifact(self, tgt, path):
        os.makedirs(FOUND_DIR, exist_ok=True)
        data = open(path, "rb").read()
        h = hashlib.sha256(data).hexdigest()[:12]
        dst = os.path.join(FOUND_DIR, "%s-%s-%s.bin" % (self.pid, tgt, h))
        with open(dst, "wb") as f:
            f.write(data)
        return dst

    def run_fuzz_input(self, exe, path, cwd):
        env = dict(os.environ)
        env["ASAN_OPTIONS"] = "detect_leaks=1:exitcode=86:allocator_may_return_null=1:handle_segv=1"
        env["UBSAN_OPTIONS"] = "print_stacktrace=1:halt_on_error=1:exitcode=86"
        env["VERIF_FZ_PROP"] = self.pid
        p = subprocess.run([exe, path], cwd=cwd, env=env, stdout=subprocess.PIPE, stderr=subprocess.STDOUT,
                           text=True, errors="replace", timeout=300, preexec_fn=_limit_stack)
        return p.returncode, p.stdout

    def triage_fuzz_artifact(self, r, art, logtext):
        exe = r["exe"]
        tgt = r["plan"]["target"]
        fails = 0
        out = ""
        for _ in range(3):
            rc, out = self.run_fuzz_input(exe, art, r["dir"])
            if rc != 0:
                fails += 1
        if fails < 3:
            self.notes.append("fuzz artifact %s reproduced %d/3 and was dropped" % (os.path.basename(art), fails))
            return
        # minimise (bounded)
        minp = os.path.join(r["dir"], "minimized")
        try:
            subprocess.run([exe, "-minimize_crash=1", "-runs=20000", "-exact_artifact_path=" + minp, art],
                           cwd=r["dir"], stdout=subprocess.DEVNULL, stderr=subprocess.DEVNULL, timeout=120,
                           env=dict(os.environ, ASAN_OPTIONS="detect_leaks=1:exitcode=86", UBSAN_OPTIONS="halt_on_error=1:exitcode=86", VERIF_FZ_PROP=self.pid),
                           preexec_fn=_limit_stack)
        except subprocess.TimeoutExpired:
            pass
        chosen = art
        if os.path.isfile(minp):
            rc, out2 = self.run_fuzz_input(exe, minp, r["dir"])
            if rc != 0:
                chosen = minp
                out = out2
        dst = self.copy_artifact(tgt, chosen)
        m = re.search(r"VERIF-ORACLE: (.*)", out)
        msg = m.group(1) if m else summarize_sanitizer(out)
        self.violations.append((dst, "%s: %s" % (tgt, msg)))

    # ------------------------------------------------------------ evidence
    def write_evidence(self):
        os.makedirs(EVIDENCE_DIR, exist_ok=True)
        gaps = [c for c in self.prop.REQUIRED_CLASSES if self.merged.classes.get(c, 0) == 0]
        if gaps:
            log("[%s] WARNING: empty generator classes: %s" % (self.pid, gaps))
        cov = {
            "evaluations": int(self.merged.evaluations + self.fuzz_execs),
            "distinct_nontrivial": len(self.merged.nontrivial) + int(self.merged.enumerated_nontrivial),
            "distinct_nontrivial_by_hash": len(self.merged.nontrivial),
            "distinct_nontrivial_by_enumeration": int(self.merged.enumerated_nontrivial),
            "rule": self.prop.RULE,
            "samples": self.merged.samples[:10],
            "hypothesis_cases": int(self.merged.evaluations),
            "libfuzzer_execs": int(self.fuzz_execs),
            "inner_iterations": int(self.merged.inner),
            "classes": dict(sorted(self.merged.classes.items())),
            "excluded_known_regions": self.merged.excluded,
            "gaps": gaps,
            "fuzz_campaigns": self.fuzz_info,
            "known_findings_reported": self.known_lines,
            "notes": self.notes,
            "exhaustive": False,
        }
        ev = {
            "property_id": self.pid,
            "tier": self.tier,
            "seed": int(self.seed),
            "level": self.prop.LEVEL,
            "coverage": cov,
            "assumptions": list(self.prop.ASSUMPTIONS),
            "wall_s": round(time.time() - self.t0, 2),
            "violations": len(self.violations),
        }
        with open(os.path.join(EVIDENCE_DIR, self.pid + ".json"), "w") as f:
            json.dump(ev, f, indent=1, sort_keys=True)
            f.write("\n")

    # ------------------------------------------------------------ top level
    def run(self):
        self.do_build()
        self.phase_keep()
        self.phase_known()
        if not self.violations:
            self.phase_search()
        self.write_evidence()
        return self.finish()

    def finish(self):
        if not self.violations and not self.harness_errors and self.merged.evaluations == 0:
            # a run that explored nothing must never look like a pass
            self.harness_errors.append("no case was executed (all workers produced empty results)")
        if self.harness_errors:
            log("[%s] HARNESS ERROR:\n%s" % (self.pid, self.harness_errors[0]))
        for path, msg in self.violations[:1]:
            rel = os.path.relpath(path, ROOT)
            log("[%s] %s" % (self.pid, msg))
            print("VIOLATION property=%s replay=%s" % (self.pid, rel), flush=True)
        if self.violations:
            return 1
        if self.harness_errors:
            return 2
        log("[%s] ok: %d cases (+%d fuzz execs, %d inner), %d distinct non-trivial, %.1fs" % (
            self.pid, self.merged.evaluations, self.fuzz_execs, self.merged.inner,
            len(self.merged.nontrivial) + self.merged.enumerated_nontrivial, time.time() - self.t0))
        return 0

    def run_replay(self, path):
        self.do_build()
        if path.endswith(".bin"):
            m = re.match(r"^%s-(fz_[a-z0-9_]+)-" % self.pid, os.path.basename(path))
            if not m:
                log("cannot tell the fuzz target from the file name")
                return 2
            tgt = m.group(1)
            exe = self.fuzz_exes.get(tgt) or build.build_fuzzer(self.bdir, tgt)
            rc, out = self.run_fuzz_input(exe, os.path.abspath(path), self.bdir)
            sys.stderr.write(out[-3000:])
            if rc != 0:
                print("VIOLATION property=%s replay=%s" % (self.pid, path), flush=True)
                return 1
            return 0
        failed, msg, key = self.replay_msg(os.path.abspath(path))
        if self.harness_errors:
            log(self.harness_errors[0])
            return 2
        if failed:
            log("[%s] %s" % (self.pid, msg))
            print("VIOLATION property=%s replay=%s" % (self.pid, path), flush=True)
            return 1
        log("[%s] replay passes" % self.pid)
        return 0


def _limit_stack():
    import resource
    try:
        resource.setrlimit(resource.RLIMIT_STACK, (8 * 1024 * 1024, resource.RLIM_INFINITY))
    except Exception:
        pass


def summarize_sanitizer(err):
    if not err:
        return "no output"
    for line in err.splitlines():
        if "ERROR: AddressSanitizer" in line or "runtime error:" in line or "ERROR: LeakSanitizer" in line or "SUMMARY:" in line:
            return line.strip()[:300]
    lines = [l for l in err.strip().splitlines() if l.strip()]
    return lines[-1][:300] if lines else "no output"


def crash_key(err):
    m = re.search(r"SUMMARY: \w+Sanitizer: (\S+) \S*?([A-Za-z_0-9]+\.c):\d+(?::\d+)? in (\w+)", err or "")
    if m:
        return "crash:%s:%s" % (m.group(1), m.group(3))
    return "crash"
