"""Shared pieces of the framework: Violation, Stats, case (de)serialisation, Prop base class."""
import hashlib
import json
import math
import struct
import sys

sys.setrecursionlimit(200000)


class Violation(Exception):
    """The oracle of a property failed on a case."""

    def __init__(self, msg, key=None, detail=None):
        Exception.__init__(self, msg)
        self.msg = msg
        self.key = key          # stable key of the failing region (for known findings)
        self.detail = detail


# ------------------------------------------------------------------ JSON with bytes
def enc(obj):
    if isinstance(obj, (bytes, bytearray)):
        return {"$b": bytes(obj).hex()}
    if isinstance(obj, float):
        if obj != obj or obj in (math.inf, -math.inf) or (obj == 0.0 and math.copysign(1.0, obj) < 0):
            return {"$f": struct.pack(">d", obj).hex()}
        return obj
    if isinstance(obj, (list, tuple)):
        return [enc(x) for x in obj]
    if isinstance(obj, dict):
        return {str(k): enc(v) for k, v in obj.items()}
    return obj


def dec(obj):
    if isinstance(obj, dict):
        if len(obj) == 1 and "$b" in obj:
            return bytes.fromhex(obj["$b"])
        if len(obj) == 1 and "$f" in obj:
            return struct.unpack(">d", bytes.fromhex(obj["$f"]))[0]
        return {k: dec(v) for k, v in obj.items()}
    if isinstance(obj, list):
        return [dec(x) for x in obj]
    return obj


def dumps(obj):
    return json.dumps(enc(obj), sort_keys=True, separators=(",", ":"))


def loads(text):
    return dec(json.loads(text))


def h64(obj):
    """64-bit hash of a case (or of any key object)"""
    if not isinstance(obj, (bytes, bytearray)):
        obj = dumps(obj).encode("utf-8")
    return int.from_bytes(hashlib.blake2b(obj, digest_size=8).digest(), "big")


def _readable(obj):
    """bytes that are printable ASCII are shown as text in evidence samples"""
    if isinstance(obj, (bytes, bytearray)):
        b = bytes(obj)
        if all(0x20 <= c < 0x7F for c in b):
            return b.decode("ascii")
        return {"$b": b.hex()}
    if isinstance(obj, (list, tuple)):
        return [_readable(x) for x in obj]
    if isinstance(obj, dict):
        return {str(k): _readable(v) for k, v in obj.items()}
    return obj


def short(obj, limit=400):
    """compact printable form of a case for evidence samples"""
    s = enc(_readable(obj))
    t = json.dumps(s, sort_keys=True)
    if len(t) > limit:
        return {"truncated": t[:limit], "full_len": len(t)}
    return s


class Stats:
    def __init__(self):
        self.evaluations = 0
        self.inner = 0            # iterations of exhaustive inner loops
        self.classes = {}
        self.nontrivial = set()   # 64-bit hashes
        self.samples = []
        self.excluded = {}        # known-finding regions excluded by construction, counted
        self.max_samples = 6
        self.enumerated_nontrivial = 0   # distinct by construction (disjoint partitions of an enumeration)

    def cls(self, name, n=1):
        self.classes[name] = self.classes.get(name, 0) + n

    def exclude(self, key, n=1):
        self.excluded[key] = self.excluded.get(key, 0) + n

    def nontriv(self, keyobj, sample=None):
        h = h64(keyobj)
        new = h not in self.nontrivial
        self.nontrivial.add(h)
        if new and sample is not None and len(self.nontrivial) in (2, 8, 25, 60, 120, 250, 500, 1000):
            # spread samples over the run: Hypothesis starts with the simplest cases
            self.samples.append(short(sample))
        return new

    def to_json(self):
        return {"evaluations": self.evaluations, "inner": self.inner, "classes": self.classes,
                "nontrivial": sorted(self.nontrivial), "samples": self.samples, "excluded": self.excluded,
                "enumerated_nontrivial": self.enumerated_nontrivial}


class Prop:
    """Base class of a property check."""
    ID = "C00"
    LEVEL = "exploration"
    RULE = ""
    ASSUMPTIONS = []
    HOOK_MODE = 1            # ledger configuration installed before each case (LG_BOTH)
    FUZZ_TARGETS = []        # names of native/fz_*.c targets run besides the Hypothesis search
    REQUIRED_CLASSES = []    # classes the rule names; empty ones are reported as coverage gaps
    CONFIRM_TRIES = 3        # a candidate failure is replayed this many times in fresh processes ...
    CONFIRM_NEED = 3         # ... and reported only if it fails at least this many times

    def budget(self, tier):
        """returns dict(workers=int, examples=int per worker)"""
        return {"workers": 12, "examples": 300 if tier == "quick" else 3000}

    def strategy(self, tier):
        raise NotImplementedError

    def run_case(self, lib, case, stats):
        raise NotImplementedError

    def fuzz_plan(self, tier):
        """list of dicts(target=..., procs=..., runs=..., max_len=..., corpus=[dirs], dict=path|None)"""
        return []

    def shrink_candidates(self, case):
        """smaller variants of a crashing case (sanitizer aborts bypass Hypothesis shrinking)"""
        return []

    def prelude(self, lib, stats, index, nworkers, tier):
        """deterministic work done once per worker before the Hypothesis search (exhaustive enumerations);
        raises Violation(msg, key, detail={'case': ...}) with a replayable case"""
        return None

    def finding_key(self, case, violation):
        return violation.key
