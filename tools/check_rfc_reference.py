#!/usr/bin/env python3
"""Validates the Python reference evaluator (verif/rfc.py) against the JSON-Patch conformance files shipped in
/repo/tests/json-patch-tests (used as data for the reference, not as the check) and the RFC 7396 examples."""
import json
import os
import sys
sys.path.insert(0, os.path.dirname(os.path.dirname(os.path.abspath(__file__))))
from verif import rfc, model


def to_jv(v):
    if v is None:
        return ["n"]
    if v is True:
        return ["t"]
    if v is False:
        return ["f"]
    if isinstance(v, (int, float)):
        return ["N", float(v)]
    if isinstance(v, str):
        return ["S", v.encode("utf-8")]
    if isinstance(v, list):
        return ["A", [to_jv(x) for x in v]]
    return ["O", [[k.encode("utf-8"), to_jv(x)] for k, x in v.items()]]


def main():
    bad = 0
    n = 0
    for f in ("tests.json", "spec_tests.json", "cjson-utils-tests.json"):
        p = os.path.join("/repo/tests/json-patch-tests", f)
        for t in json.load(open(p)):
            if t.get("disabled") or "doc" not in t or "patch" not in t:
                continue
            n += 1
            doc, patch = to_jv(t["doc"]), to_jv(t["patch"])
            try:
                res = rfc.patch_apply(doc, patch)
                ok = "error" not in t
                if ok and "expected" in t and not model.eq_set(res, to_jv(t["expected"]), True):
                    ok = False
            except rfc.PatchError as e:
                ok = "error" in t
            if not ok:
                bad += 1
                print("DISAGREE", f, t.get("comment"), json.dumps(t)[:300])
    # RFC 7396 appendix A
    cases = [({"a": "b"}, {"a": "c"}, {"a": "c"}), ({"a": "b"}, {"b": "c"}, {"a": "b", "b": "c"}), ({"a": "b"}, {"a": None}, {}),
             ({"a": "b", "b": "c"}, {"a": None}, {"b": "c"}), ({"a": ["b"]}, {"a": "c"}, {"a": "c"}), ({"a": "c"}, {"a": ["b"]}, {"a": ["b"]}),
             ({"a": {"b": "c"}}, {"a": {"b": "d", "c": None}}, {"a": {"b": "d"}}), ({"a": [{"b": "c"}]}, {"a": [1]}, {"a": [1]}),
             (["a", "b"], ["c", "d"], ["c", "d"]), ({"a": "b"}, ["c"], ["c"]), ({"a": "foo"}, None, None), ({"a": "foo"}, "bar", "bar"),
             ({"e": None}, {"a": 1}, {"e": None, "a": 1}), ([1, 2], {"a": "b", "c": None}, {"a": "b"}), ({}, {"a": {"bb": {"ccc": None}}}, {"a": {"bb": {}}})]
    for tgt, pat, exp in cases:
        n += 1
        if not model.eq_set(rfc.merge_apply(to_jv(tgt), to_jv(pat)), to_jv(exp), True):
            bad += 1
            print("DISAGREE merge", tgt, pat, exp)
    print("reference checked on %d cases, %d disagreements" % (n, bad))
    return 1 if bad else 0


if __name__ == "__main__":
    sys.exit(main())
