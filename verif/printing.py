"""Helpers shared by the printer properties (C04, C05, C09): building trees, printing through every
variant, number comparison rules."""
import ctypes
import math
import re

from . import model
from .core import Violation
from .lib import LG_BOTH, LG_DEFAULT

NUM_RE = re.compile(r"#([0-9a-f]{16}):(-?\d+);")


def build_tree(lib, jv):
    """construction-API tree for a JV; returns the root pointer (caller deletes)"""
    t = jv[0]
    if t == "n":
        return lib.cJSON_CreateNull()
    if t == "t":
        return lib.cJSON_CreateTrue()
    if t == "f":
        return lib.cJSON_CreateFalse()
    if t in "NL":
        d = model.num_value(jv)
        if d != d or math.isinf(d):
            n = lib.cJSON_CreateNumber(0.0)
            lib.shim_poke_number(n, d, 0)
            return n
        return lib.cJSON_CreateNumber(d)
    if t == "S":
        return lib.cJSON_CreateString(jv[1])
    if t == "R":
        return lib.cJSON_CreateRaw(jv[1])
    if t == "A":
        a = lib.cJSON_CreateArray()
        for ch in jv[1]:
            c = build_tree(lib, ch)
            if not lib.cJSON_AddItemToArray(a, c):
                raise Violation("AddItemToArray failed while building", key="build")
        return a
    if t == "O":
        o = lib.cJSON_CreateObject()
        for k, ch in jv[1]:
            c = build_tree(lib, ch)
            if not lib.cJSON_AddItemToObject(o, k, c):
                raise Violation("AddItemToObject failed while building", key="build")
        return o
    if t == "D":
        return build_tree(lib, model.expand(jv))
    raise ValueError(t)


def prebuffers(L):
    return sorted(set(x for x in (0, 1, 2, 3, L - 1, L, L + 1, 255, 256, 257, 2 * L, L + 2, 5, 64) if x >= 0))


def print_all(lib, tree, stats=None, prebuf_subset=None):
    """prints through every variant; demands byte-identical output per format. returns {0: unformatted, 1: formatted}"""
    out = {}
    # a print that legitimately fails (caller buffer far too small) must leave nothing behind that later prints trip over
    small = lib.guard_rw(None, 3)
    lib.cJSON_PrintPreallocated(tree, small, 3, 1)
    lib.cJSON_PrintPreallocated(tree, small, 1, 0)
    lib.guard_release(small)
    for fmt in (0, 1):
        base = lib.take_text(lib.cJSON_Print(tree) if fmt else lib.cJSON_PrintUnformatted(tree))
        if base is None:
            raise Violation("%s returned NULL" % ("cJSON_Print" if fmt else "cJSON_PrintUnformatted"), key="print-null")
        L = len(base)
        pres = prebuffers(L)
        if prebuf_subset is not None:
            pres = [p for i, p in enumerate(pres) if (i + prebuf_subset) % 3 == 0] + [0, L, L + 1]
        for pre in pres:
            t = lib.take_text(lib.cJSON_PrintBuffered(tree, pre, fmt))
            if t is None:
                raise Violation("cJSON_PrintBuffered(prebuffer=%d, fmt=%d) returned NULL" % (pre, fmt), key="print-null")
            if t != base:
                raise Violation("cJSON_PrintBuffered(prebuffer=%d, fmt=%d) differs from the plain printer: %r vs %r" % (
                    pre, fmt, t[:120], base[:120]), key="variant-disagree")
            if stats is not None:
                stats.inner += 1
                if pre < L:
                    stats.cls("growth_exercised")
        if fmt:
            # cJSON_bool is an int: every non-zero value means "formatted"
            for truthy in (2, -1, 256):
                t = lib.take_text(lib.cJSON_PrintBuffered(tree, pres[len(pres) // 2], truthy))
                if t != base:
                    raise Violation("cJSON_PrintBuffered with format flag %d differs from cJSON_Print: %r vs %r" % (truthy, (t or b"")[:120], base[:120]),
                                    key="variant-disagree")
        n = L + 64
        buf = lib.guard_rw(None, n)
        ok = lib.cJSON_PrintPreallocated(tree, buf, n, 4 if fmt and L % 2 else fmt)
        got = ctypes.string_at(buf) if ok else None
        canary = lib.guard_check(buf)
        lib.guard_release(buf)
        if canary:
            raise Violation("cJSON_PrintPreallocated wrote before its buffer", key="prealloc-oob")
        if not ok:
            raise Violation("cJSON_PrintPreallocated with %d spare bytes failed (fmt=%d)" % (64, fmt), key="prealloc-fail")
        if got != base:
            raise Violation("cJSON_PrintPreallocated output differs from the plain printer (fmt=%d): %r vs %r" % (fmt, got[:120], base[:120]),
                            key="variant-disagree")
        out[fmt] = base
    return out


OWN_RE = re.compile(r"\(([ntfNSRAO])c?r?")


def strip_ownership(dump):
    """canonical dump without the ownership flags (constant key, reference): what is left is the VALUE"""
    return OWN_RE.sub(r"(\1", dump)


def mask_numbers(dump):
    nums = [(m.group(1), int(m.group(2))) for m in NUM_RE.finditer(dump)]
    return NUM_RE.sub("#;", dump), nums


def number_roundtrip_ok(x, y):
    """C04: y (re-parsed) vs x (source). returns None if fine else a reason"""
    if y != y or math.isinf(y):
        return "re-parsed number is not finite"
    if abs(x - y) > (2.0 ** -52) * max(abs(x), abs(y)):
        return "re-parsed number differs by more than one part in 2^52"
    if abs(x) < 1e15 and x == math.floor(x) and x != y:
        return "integer below 10^15 not recovered exactly"
    return None


def strip_ws_outside_strings(text):
    out = bytearray()
    in_str = False
    i = 0
    n = len(text)
    while i < n:
        c = text[i]
        if in_str:
            out.append(c)
            if c == 0x5C and i + 1 < n:
                out.append(text[i + 1])
                i += 2
                continue
            if c == 0x22:
                in_str = False
        else:
            if c == 0x22:
                in_str = True
                out.append(c)
            elif c not in (0x20, 0x09, 0x0A, 0x0D):
                out.append(c)
        i += 1
    return bytes(out)


def with_hooks(lib, mode):
    """switch allocator configuration; only legal with an empty ledger"""
    if lib.ledger_live() != 0:
        raise Violation("harness: allocator switch with live blocks", key="harness")
    lib.ledger_install(mode)


class Arena:
    """borrowed key / string memory for ownership-flag variants (read-only guarded pages)"""

    def __init__(self, lib):
        self.lib = lib
        self.ptrs = []

    def put(self, b):
        p = self.lib.guard_ro(b + b"\x00", len(b) + 1)
        self.ptrs.append(p)
        return p

    def close(self):
        for p in self.ptrs:
            self.lib.guard_release(p)
        self.ptrs = []


def build_flagged(lib, jv, arena, rnd, p_const=0.5, p_ref=0.3):
    """the same VALUE as build_tree(jv), but with ownership flags sprinkled in: members added with constant keys
    (cJSON_AddItemToObjectCS, key in read-only memory), strings as cJSON_CreateStringReference.  Functions that only
    look at values must not care."""
    t = jv[0]
    if t == "S" and b"\x00" not in jv[1] and rnd.random() < p_ref:
        return lib.cJSON_CreateStringReference(arena.put(jv[1]))
    if t == "A":
        a = lib.cJSON_CreateArray()
        for ch in jv[1]:
            c = build_flagged(lib, ch, arena, rnd, p_const, p_ref)
            if rnd.random() < 0.3:
                # the element used to be an object member: it still carries that name (the library never clears it)
                tmp = lib.cJSON_CreateObject()
                lib.cJSON_AddItemToObject(tmp, rnd.choice([b"stale", b"0", b"a/b", b""]), c)
                lib.cJSON_DetachItemViaPointer(tmp, c)
                lib.cJSON_Delete(tmp)
            lib.cJSON_AddItemToArray(a, c)
        return a
    if t == "O":
        o = lib.cJSON_CreateObject()
        for k, ch in jv[1]:
            c = build_flagged(lib, ch, arena, rnd, p_const, p_ref)
            if rnd.random() < p_const:
                lib.cJSON_AddItemToObjectCS(o, arena.put(k), c)
            else:
                lib.cJSON_AddItemToObject(o, k, c)
        return o
    return build_tree(lib, jv)


ROOT_VARIANTS = ["plain", "plain", "plain", "cs_member", "reference", "flagged_tree", "stale_key", "tail_reference", "holder_of_references"]


class RootVariant:
    """the same VALUE as build_tree(jv) handed to a printer as an item that carries ownership flags at the ROOT:
    a former constant-key member (cJSON_StringIsConst + key), a reference node (cJSON_IsReference), a former ordinary
    member (stale key), or a tree with flags inside.  Printers look at values only; flags and the root's own key must not matter."""

    def __init__(self, lib, jv, variant, rnd):
        self.lib = lib
        self.arena = Arena(lib)
        self.extra = []
        self.variant = variant
        self.jv = jv          # the VALUE the root denotes (differs from the argument for tail_reference)
        if variant == "tail_reference" and (jv[0] not in "AO" or len(jv[1]) < 2):
            variant = self.variant = "plain"
        if variant == "tail_reference":
            # a reference container that shares the TAIL of another container's list: it denotes the elements from k on
            tree = build_tree(lib, jv)
            k = 1 + rnd.randrange(len(jv[1]) - 1)
            kid = lib.children(tree)[k]
            self.root = (lib.cJSON_CreateArrayReference if jv[0] == "A" else lib.cJSON_CreateObjectReference)(kid)
            self.extra.append(tree)
            self.jv = [jv[0], jv[1][k:]]
            return
        if variant == "holder_of_references":
            # references INSIDE a tree: an array holding a reference to the whole value, a reference container over the tail of its
            # list (if it has one), a reference container over a stand-alone item, and an object with a reference member
            tree = build_tree(lib, jv)
            self.extra.append(tree)
            holder = lib.cJSON_CreateArray()
            elems = [jv]
            lib.cJSON_AddItemReferenceToArray(holder, tree)
            if jv[0] in "AO" and len(jv[1]) >= 2:
                k = 1 + rnd.randrange(len(jv[1]) - 1)
                lib.cJSON_AddItemToArray(holder, (lib.cJSON_CreateArrayReference if jv[0] == "A" else lib.cJSON_CreateObjectReference)(lib.children(tree)[k]))
                elems.append([jv[0], jv[1][k:]])
            alone_jv = ["S", b"stand-alone"] if rnd.random() < 0.5 else ["A", [["N", 1.5], ["n"]]]
            alone = build_tree(lib, alone_jv)
            self.extra.append(alone)
            lib.cJSON_AddItemToArray(holder, lib.cJSON_CreateArrayReference(alone))
            elems.append(["A", [alone_jv]])
            obj = lib.cJSON_CreateObject()
            lib.cJSON_AddItemReferenceToObject(obj, b"ref", tree)
            lib.cJSON_AddItemToObject(obj, b"own", lib.cJSON_CreateNumber(2.0))
            lib.cJSON_AddItemToArray(holder, obj)
            elems.append(["O", [[b"ref", jv], [b"own", ["N", 2.0]]]])
            self.root = holder
            self.jv = ["A", elems]
            return
        if variant == "flagged_tree":
            self.root = build_flagged(lib, jv, self.arena, rnd)
            return
        if variant == "nameless_member" and (jv[0] != "O" or not jv[1]):
            variant = self.variant = "plain"
        if variant == "nameless_member":
            # a member replaced through cJSON_ReplaceItemViaPointer by an item that has no name: the printers write the name as ""
            tree = build_tree(lib, jv)
            i = rnd.randrange(len(jv[1]))
            fresh = build_tree(lib, jv[1][i][1])
            lib.cJSON_ReplaceItemViaPointer(tree, lib.children(tree)[i], fresh)
            self.root = tree
            self.jv = ["O", [[b"" if j == i else k, v] for j, (k, v) in enumerate(jv[1])]]
            return
        tree = build_tree(lib, jv)
        self.root = tree
        if variant == "cs_member":
            tmp = lib.cJSON_CreateObject()
            lib.cJSON_AddItemToObjectCS(tmp, self.arena.put(b"constant key"), tree)
            lib.cJSON_DetachItemViaPointer(tmp, tree)
            lib.cJSON_Delete(tmp)
        elif variant == "stale_key":
            tmp = lib.cJSON_CreateObject()
            lib.cJSON_AddItemToObject(tmp, b"former \"name\"", tree)
            lib.cJSON_DetachItemViaPointer(tmp, tree)
            lib.cJSON_Delete(tmp)
        elif variant == "reference":
            t = lib.shim_type(tree) & 0xFF
            if t == 64:
                ref = lib.cJSON_CreateObjectReference(lib.shim_child(tree))
            elif t == 32:
                ref = lib.cJSON_CreateArrayReference(lib.shim_child(tree))
            else:
                tmp = lib.cJSON_CreateArray()
                lib.cJSON_AddItemReferenceToArray(tmp, tree)
                ref = lib.cJSON_DetachItemFromArray(tmp, 0)
                lib.cJSON_Delete(tmp)
            if ref:
                self.extra.append(tree)   # the referenced tree stays alive until close()
                self.root = ref

    def close(self):
        self.lib.cJSON_Delete(self.root)
        for t in self.extra:
            self.lib.cJSON_Delete(t)
        self.arena.close()
