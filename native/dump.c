/* Canonical tree dump + structural walker (DESIGN.md 1.1, Appendix A).
 *
 * node   := '(' T flags [ 'k' hex ';' ] value children ')'
 * T      := n t f N S R A O | '?' decimal-type ';'
 * flags  := ['c'] ['r']              constant key, reference
 * value  := N: '#' 16 hex digits of valuedouble ':' valueint ';'
 *           S,R: 's' hex ';'  or  's!' when valuestring == NULL
 * children follow for A and O (for reference containers only when follow_refs)
 */
#include <string.h>
#include <stdio.h>
#include <stdlib.h>
#include "probe.h"

#define MAX_DEPTH 20000
#define MAX_NODES 20000000u

typedef struct
{
    char *buf;
    size_t len, cap;
    int enabled;
} sb_t;

typedef struct
{
    uintptr_t *slots;
    size_t cap, count;
} pset_t;

typedef struct
{
    sb_t sb;
    pset_t seen;
    unsigned flags;
    size_t nodes;
    size_t maxdepth;
    int follow_refs;
} ctx_t;

static void sb_reserve(sb_t *s, size_t extra)
{
    if (!s->enabled)
    {
        return;
    }
    if (s->len + extra + 1 > s->cap)
    {
        size_t ncap = s->cap ? s->cap * 2 : 256;
        while (ncap < s->len + extra + 1)
        {
            ncap *= 2;
        }
        s->buf = (char *)probe_realloc(s->buf, ncap);
        if (s->buf == NULL)
        {
            harness_die("dump: out of memory");
        }
        s->cap = ncap;
    }
}

static void sb_putc(sb_t *s, char c)
{
    if (!s->enabled)
    {
        return;
    }
    sb_reserve(s, 1);
    s->buf[s->len++] = c;
}

static void sb_puts(sb_t *s, const char *t)
{
    size_t n = strlen(t);
    if (!s->enabled)
    {
        return;
    }
    sb_reserve(s, n);
    memcpy(s->buf + s->len, t, n);
    s->len += n;
}

static void sb_hex(sb_t *s, const unsigned char *b)
{
    static const char hx[] = "0123456789abcdef";
    size_t n;
    size_t i;
    if (!s->enabled)
    {
        return;
    }
    n = strlen((const char *)b);
    sb_reserve(s, 2 * n);
    for (i = 0; i < n; i++)
    {
        s->buf[s->len++] = hx[b[i] >> 4];
        s->buf[s->len++] = hx[b[i] & 15];
    }
}

static int pset_add(pset_t *ps, uintptr_t p)
{
    size_t i;
    if ((ps->count + 1) * 2 > ps->cap)
    {
        size_t ncap = ps->cap ? ps->cap * 2 : 1024;
        uintptr_t *ns = (uintptr_t *)probe_malloc(ncap * sizeof(uintptr_t));
        size_t j;
        if (ns == NULL)
        {
            harness_die("dump: out of memory");
        }
        memset(ns, 0, ncap * sizeof(uintptr_t));
        for (j = 0; j < ps->cap; j++)
        {
            if (ps->slots[j] != 0)
            {
                size_t k = (size_t)((ps->slots[j] * 0x9E3779B97F4A7C15ULL) >> 17) & (ncap - 1);
                while (ns[k] != 0)
                {
                    k = (k + 1) & (ncap - 1);
                }
                ns[k] = ps->slots[j];
            }
        }
        probe_free(ps->slots);
        ps->slots = ns;
        ps->cap = ncap;
    }
    i = (size_t)((p * 0x9E3779B97F4A7C15ULL) >> 17) & (ps->cap - 1);
    while (ps->slots[i] != 0)
    {
        if (ps->slots[i] == p)
        {
            return 0;
        }
        i = (i + 1) & (ps->cap - 1);
    }
    ps->slots[i] = p;
    ps->count++;
    return 1;
}

static char type_char(int type)
{
    switch (type & 0xFF)
    {
        case cJSON_NULL: return 'n';
        case cJSON_True: return 't';
        case cJSON_False: return 'f';
        case cJSON_Number: return 'N';
        case cJSON_String: return 'S';
        case cJSON_Raw: return 'R';
        case cJSON_Array: return 'A';
        case cJSON_Object: return 'O';
        default: return '?';
    }
}

static void walk(ctx_t *c, const cJSON *n, size_t depth, int in_object, int borrowed);

static void walk_children(ctx_t *c, const cJSON *parent, size_t depth, int borrowed)
{
    const cJSON *first = parent->child;
    const cJSON *cur = first;
    const cJSON *last = NULL;
    int is_object = ((parent->type & 0xFF) == cJSON_Object);
    while (cur != NULL)
    {
        if (c->nodes > MAX_NODES)
        {
            c->flags |= WF_NEXT_CYCLE;
            return;
        }
        if (!borrowed && !pset_add(&c->seen, (uintptr_t)cur))
        {
            c->flags |= WF_NEXT_CYCLE;
            return;
        }
        if (borrowed)
        {
            /* borrowed chains may legitimately be visited more than once; bound by a private count */
            if (c->nodes > MAX_NODES)
            {
                c->flags |= WF_NEXT_CYCLE;
                return;
            }
        }
        walk(c, cur, depth, is_object, borrowed);
        if (c->flags & (WF_NEXT_CYCLE | WF_TOO_DEEP))
        {
            return;
        }
        if (!borrowed && cur->next != NULL && cur->next->prev != cur)
        {
            c->flags |= WF_PREV_MISMATCH;
        }
        last = cur;
        cur = cur->next;
    }
    if (!borrowed && first != NULL && first->prev != last)
    {
        c->flags |= WF_TAIL_MISMATCH;
    }
}

static void walk(ctx_t *c, const cJSON *n, size_t depth, int in_object, int borrowed)
{
    char t = type_char(n->type);
    char tmp[64];
    int is_ref = (n->type & cJSON_IsReference) != 0;
    c->nodes++;
    if (depth > c->maxdepth)
    {
        c->maxdepth = depth;
    }
    if (depth > MAX_DEPTH)
    {
        c->flags |= WF_TOO_DEEP;
        return;
    }
    sb_putc(&c->sb, '(');
    if (t == '?')
    {
        c->flags |= WF_BAD_TYPE;
        sprintf(tmp, "?%d;", n->type & 0xFF);
        sb_puts(&c->sb, tmp);
    }
    else
    {
        sb_putc(&c->sb, t);
    }
    if ((n->type & cJSON_StringIsConst) && (n->string != NULL))
    {
        sb_putc(&c->sb, 'c');
    }
    if (is_ref)
    {
        sb_putc(&c->sb, 'r');
    }
    if (n->string != NULL)
    {
        sb_putc(&c->sb, 'k');
        sb_hex(&c->sb, (const unsigned char *)n->string);
        sb_putc(&c->sb, ';');
    }
    else if (in_object && !borrowed)
    {
        c->flags |= WF_NULL_KEY;
    }
    if (t == 'N')
    {
        uint64_t bits;
        memcpy(&bits, &n->valuedouble, sizeof(bits));
        sprintf(tmp, "#%016llx:%d;", (unsigned long long)bits, n->valueint);
        sb_puts(&c->sb, tmp);
    }
    else if (t == 'S' || t == 'R')
    {
        if (is_ref && !c->follow_refs)
        {
            /* borrowed string that may be gone: not read */
            sb_puts(&c->sb, "s?");
        }
        else if (n->valuestring == NULL)
        {
            c->flags |= WF_NULL_VALUESTRING;
            sb_puts(&c->sb, "s!");
        }
        else
        {
            sb_putc(&c->sb, 's');
            sb_hex(&c->sb, (const unsigned char *)n->valuestring);
            sb_putc(&c->sb, ';');
        }
    }
    if (t == 'A' || t == 'O')
    {
        if (!is_ref || c->follow_refs)
        {
            walk_children(c, n, depth + 1, is_ref || borrowed);
        }
    }
    else if (n->child != NULL && t != '?')
    {
        c->flags |= WF_LEAF_CHILD;
    }
    sb_putc(&c->sb, ')');
}

static void run(ctx_t *c, const cJSON *root, int follow_refs, int check_root_links, int text)
{
    memset(c, 0, sizeof(*c));
    c->sb.enabled = text;
    c->follow_refs = follow_refs;
    if (root == NULL)
    {
        sb_puts(&c->sb, "NULL");
    }
    else
    {
        if (check_root_links && (root->next != NULL || root->prev != NULL))
        {
            c->flags |= WF_ROOT_SIBLINGS;
        }
        pset_add(&c->seen, (uintptr_t)root);
        walk(c, root, 0, 0, 0);
    }
    probe_free(c->seen.slots);
    c->seen.slots = NULL;
}

void tree_dump(const cJSON *root, int follow_refs, int check_root_links, dump_result_t *out)
{
    ctx_t c;
    run(&c, root, follow_refs, check_root_links, 1);
    sb_reserve(&c.sb, 1);
    c.sb.buf[c.sb.len] = '\0';
    out->text = c.sb.buf;
    out->length = c.sb.len;
    out->flags = c.flags;
    out->nodes = c.nodes;
    out->depth = c.maxdepth;
}

void tree_dump_release(dump_result_t *r)
{
    probe_free(r->text);
    r->text = NULL;
}

unsigned tree_walk(const cJSON *root, int follow_refs, int check_root_links, size_t *nodes, size_t *depth)
{
    ctx_t c;
    run(&c, root, follow_refs, check_root_links, 0);
    if (nodes != NULL)
    {
        *nodes = c.nodes;
    }
    if (depth != NULL)
    {
        *depth = c.maxdepth;
    }
    return c.flags;
}

/* ---- pointer collection (no cycle protection: call only after a clean walk) ---- */
typedef struct
{
    uintptr_t *out;
    size_t cap, n;
    int mode; /* 0 owned, 1 const keys, 2 names whose constant-key flag contradicts where the name lives */
} coll_t;

static void coll_put(coll_t *c, const void *p)
{
    if (c->n < c->cap)
    {
        c->out[c->n] = (uintptr_t)p;
    }
    c->n++;
}

static void collect(coll_t *c, const cJSON *n)
{
    const cJSON *ch;
    if (c->mode == 0)
    {
        coll_put(c, n);
        if (n->valuestring != NULL && !(n->type & cJSON_IsReference))
        {
            coll_put(c, n->valuestring);
        }
        if (n->string != NULL && !(n->type & cJSON_StringIsConst))
        {
            coll_put(c, n->string);
        }
    }
    else if (c->mode == 1)
    {
        if (n->string != NULL && (n->type & cJSON_StringIsConst))
        {
            coll_put(c, n->string);
        }
    }
    else if (n->string != NULL)
    {
        /* a name flagged constant is borrowed: it must not be a block of the library's allocator; a name not flagged is owned: it must be one */
        int live = ledger_is_live(n->string);
        int flagged = (n->type & cJSON_StringIsConst) != 0;
        if (live == flagged)
        {
            coll_put(c, n->string);
        }
    }
    if (n->type & cJSON_IsReference)
    {
        return;
    }
    for (ch = n->child; ch != NULL; ch = ch->next)
    {
        collect(c, ch);
    }
}

size_t tree_owned_ptrs(const cJSON *root, uintptr_t *out, size_t cap)
{
    coll_t c;
    c.out = out;
    c.cap = cap;
    c.n = 0;
    c.mode = 0;
    if (root != NULL)
    {
        collect(&c, root);
    }
    return c.n;
}

size_t tree_name_flag_conflicts(const cJSON *root)
{
    coll_t c;
    c.out = NULL;
    c.cap = 0;
    c.n = 0;
    c.mode = 2;
    if (root != NULL)
    {
        collect(&c, root);
    }
    return c.n;
}

size_t tree_const_keys(const cJSON *root, uintptr_t *out, size_t cap)
{
    coll_t c;
    c.out = out;
    c.cap = cap;
    c.n = 0;
    c.mode = 1;
    if (root != NULL)
    {
        collect(&c, root);
    }
    return c.n;
}
