/* Common bookkeeping for libFuzzer targets: class counters, distinct non-trivial inputs,
 * samples; all written to $VERIF_FZ_STATS at exit and before an oracle trap. */
#ifndef VERIF_FZCOMMON_H
#define VERIF_FZCOMMON_H
#include <stdio.h>
#include <stdlib.h>
#include <string.h>
#include <stdint.h>
#include "probe.h"

#define FZ_MAX_CLASSES 32
#define FZ_SET_CAP (1u << 20)
#define FZ_SAMPLES 4

static const char *fz_names[FZ_MAX_CLASSES];
static uint64_t fz_counts[FZ_MAX_CLASSES];
static int fz_nclasses = 0;
static uint64_t fz_execs = 0;
static uint64_t *fz_set = NULL;
static uint64_t fz_set_count = 0;
static char *fz_samples[FZ_SAMPLES];
static int fz_nsamples = 0;
static int fz_registered = 0;

static int fz_class_id(const char *name)
{
    int i;
    for (i = 0; i < fz_nclasses; i++)
    {
        if (fz_names[i] == name || strcmp(fz_names[i], name) == 0)
        {
            return i;
        }
    }
    if (fz_nclasses < FZ_MAX_CLASSES)
    {
        fz_names[fz_nclasses] = name;
        return fz_nclasses++;
    }
    return FZ_MAX_CLASSES - 1;
}

static void fz_class(const char *name) { fz_counts[fz_class_id(name)]++; }

static void fz_flush(void)
{
    const char *path = getenv("VERIF_FZ_STATS");
    FILE *f;
    int i;
    char hpath[4096];
    if (path == NULL)
    {
        return;
    }
    f = fopen(path, "w");
    if (f == NULL)
    {
        return;
    }
    fprintf(f, "{\"execs\": %llu, \"distinct_nontrivial\": %llu, \"classes\": {", (unsigned long long)fz_execs, (unsigned long long)fz_set_count);
    for (i = 0; i < fz_nclasses; i++)
    {
        fprintf(f, "%s\"%s\": %llu", i ? ", " : "", fz_names[i], (unsigned long long)fz_counts[i]);
    }
    fprintf(f, "}, \"samples\": [");
    for (i = 0; i < fz_nsamples; i++)
    {
        fprintf(f, "%s\"%s\"", i ? ", " : "", fz_samples[i]);
    }
    fprintf(f, "]}\n");
    fclose(f);
    snprintf(hpath, sizeof(hpath), "%s.hashes", path);
    f = fopen(hpath, "wb");
    if (f != NULL && fz_set != NULL)
    {
        uint32_t k;
        for (k = 0; k < FZ_SET_CAP; k++)
        {
            if (fz_set[k] != 0)
            {
                fwrite(&fz_set[k], 8, 1, f);
            }
        }
    }
    if (f != NULL)
    {
        fclose(f);
    }
}

static void fz_begin(void)
{
    if (!fz_registered)
    {
        fz_registered = 1;
        fz_set = (uint64_t *)probe_malloc(FZ_SET_CAP * sizeof(uint64_t));
        memset(fz_set, 0, FZ_SET_CAP * sizeof(uint64_t));
        atexit(fz_flush);
    }
    fz_execs++;
}

static uint64_t fz_hash(const uint8_t *d, size_t n)
{
    uint64_t h = 1469598103934665603ULL;
    size_t i;
    for (i = 0; i < n; i++)
    {
        h ^= d[i];
        h *= 1099511628211ULL;
    }
    h ^= h >> 29;
    h *= 0xbf58476d1ce4e5b9ULL;
    h ^= h >> 32;
    return h ? h : 1;
}

/* register a non-trivial input; counted once per distinct content (bounded set; when the set is
 * 3/4 full further new inputs are not counted, so the reported number is a lower bound) */
static void fz_nontrivial(const uint8_t *d, size_t n)
{
    uint64_t h = fz_hash(d, n);
    uint32_t i = (uint32_t)(h & (FZ_SET_CAP - 1));
    if (fz_set_count * 4 >= (uint64_t)FZ_SET_CAP * 3)
    {
        return;
    }
    while (fz_set[i] != 0)
    {
        if (fz_set[i] == h)
        {
            return;
        }
        i = (i + 1) & (FZ_SET_CAP - 1);
    }
    fz_set[i] = h;
    fz_set_count++;
    if (fz_nsamples < FZ_SAMPLES && n <= 120 && (fz_set_count == 50 || fz_set_count == 500 || fz_set_count == 5000 || fz_set_count == 20000))
    {
        char *s = (char *)probe_malloc(2 * n + 1);
        size_t k;
        for (k = 0; k < n; k++)
        {
            sprintf(s + 2 * k, "%02x", d[k]);
        }
        s[2 * n] = 0;
        fz_samples[fz_nsamples++] = s;
    }
}

/* semantic oracle failed */
static void fz_fail(const char *msg)
{
    fprintf(stderr, "VERIF-ORACLE: %s\n", msg);
    fflush(stderr);
    fz_flush();
    __builtin_trap();
}

#endif
