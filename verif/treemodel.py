"""List/map model of cJSON trees driven side by side with the library (C06, C07, C11, C14, C19).

A *program* is a list of op records [name, i1, i2, i3, i4].  Operands are late-bound against the
current model state (index modulo the number of candidates), so every integer vector is a valid
program and shrinking never invalidates operands.  Ownership rules of the API are respected by
construction; what is generated and what is not is listed in DESIGN.md Appendix B.
"""
import ctypes
import re
import math
import struct

from . import model
from .core import Violation
from .lib import flag_names, T_REF, T_CONST

INT_MAX = 2147483647
INT_MIN = -2147483648

ARENA_STRINGS = [b"ck", b"K", b"k", b"", b"a/b", b"A", b"a", b"m~n", b"const key with spaces", b"0", b"\xc3\xa9",
                 # borrowed strings that utilities read as operation names and JSON pointers (appended: indices above are stable)
                 b"add", b"replace", b"copy", b"move", b"test", b"remove", b"/a~1b", b"/m~0n", b"/k", b"/borrowed~1path~0", b"/0", b"/a~1b/0"]
KEY_POOL = [b"a", b"A", b"b", b"B", b"k", b"K", b"key", b"KEY", b"Key", b"", b"0", b"1", b"a/b", b"m~n", b"z", b"Z", b"ab", b"aB", b"\xc3\xa9", b"k2",
            # pairs that differ only in bit 0x20 but are NOT letters: ASCII case folding must keep them apart
            b"[", b"{", b"@", b"`", b"]", b"}", b"^", b"~", b"_", b"\x7f", b"\\", b"|", b"k[", b"K{", b"\xc3\x89", b"0", b"\x10", b"1", b"\x11"]
STR_POOL = [b"", b"x", b"hello", b"a longer string value", b"\"quoted\"\\", b"\n\t", b"\xc3\xa9\xe2\x82\xac", b"0123456789" * 3, b"s", b"xy"]
NUM_POOL = [0.0, 1.0, -1.0, 0.5, 2147483647.0, 2147483648.0, -2147483649.0, 1e15, 1.5e300, -0.0, 3.25, 1e-7, 42.0, 123456789.125]


SCALAR_REF_RE = re.compile(r"\(([ntfN])(c?)r")
CONST_FLAG_RE = re.compile(r"\(([ntfNSRAO])c")


class MNode:
    __slots__ = ("t", "key", "key_const", "key_ptr", "num", "vint", "sval", "is_ref", "ref_head", "ref_str_of", "children",
                 "ptr", "parent", "dangling", "sval_arena", "pins")

    def __init__(self, t, ptr):
        self.t = t
        self.ptr = ptr
        self.key = None
        self.key_const = False
        self.key_ptr = None       # arena index when the key is constant
        self.num = 0.0
        self.vint = 0
        self.sval = None
        self.is_ref = False
        self.ref_head = None      # reference container: first visible element (MNode) or None
        self.ref_str_of = None    # reference string: the node whose valuestring is borrowed, or "arena"
        self.children = []
        self.parent = None
        self.dangling = False     # reference whose target is gone: may only be deleted
        self.sval_arena = None
        self.pins = 0             # number of live references that borrow from this node


def sat_int(d):
    if d != d:
        return None
    if d >= INT_MAX:
        return INT_MAX
    if d <= INT_MIN:
        return INT_MIN
    return int(d)


class World:
    """live roots + the arena of borrowed strings, for one case"""

    def __init__(self, lib, stats=None, check_every_step=True):
        self.lib = lib
        self.stats = stats
        self.roots = []
        self.check_every_step = check_every_step
        self.arena = []
        for s in ARENA_STRINGS:
            p = lib.guard_ro(s + b"\x00", len(s) + 1)
            self.arena.append((p, s))
        self.steps = 0
        self.flags_seen = set()   # feature flags for non-trivial classification
        self.log = []

    def close(self):
        for p, _ in self.arena:
            self.lib.guard_release(p)
        self.arena = []

    # ------------------------------------------------------------ model helpers
    def new_root(self, node):
        node.parent = None
        self.roots.append(node)
        return node

    def all_nodes(self, owned_only=True):
        out = []

        def rec(n):
            out.append(n)
            if not n.is_ref:
                for c in n.children:
                    rec(c)
        for r in self.roots:
            rec(r)
        return out

    def root_of(self, n):
        while n.parent is not None:
            n = n.parent
        return n

    def in_subtree(self, n, top):
        while n is not None:
            if n is top:
                return True
            n = n.parent
        return False

    def containers(self, kind=None):
        return [n for n in self.all_nodes() if not n.is_ref and n.t in (kind or "AO")]

    def has_dangling(self, root):
        """a dangling reference is reachable from root, also through live reference views"""
        def rec(n, depth):
            if n.is_ref and n.dangling:
                return True
            if depth > 64:
                return True
            if n.is_ref:
                if n.t in "AO":
                    return any(rec(c, depth + 1) for c in self.ref_children(n))
                return False
            return any(rec(c, depth + 1) for c in n.children)
        return rec(root, 0)

    def keyless_member(self, root):
        def rec(n):
            if n.is_ref:
                return False
            if n.t == "O" and any(c.key is None for c in n.children):
                return True
            return any(rec(c) for c in n.children)
        return rec(root)

    def ref_children(self, n):
        """visible children of a live reference container"""
        h = n.ref_head
        if h is None:
            return []
        if h.parent is None:
            return [h]
        sibs = h.parent.children
        i = sibs.index(h)
        return sibs[i:]

    def expected_dump(self, n, follow_refs=True, top=True):
        out = []
        self._dump(out, n, follow_refs, set())
        return "".join(out)

    def _dump(self, out, n, follow, stack):
        tc = n.t
        # (whether a "reference" to a number or literal carries the reference bit is nobody's promise: it owns nothing either way)
        out.append("(" + tc + ("c" if (n.key_const and n.key is not None) else "") + ("r" if n.is_ref and tc not in "ntfN" else ""))
        if n.key is not None:
            out.append("k" + model.c_bytes(n.key).hex() + ";")
        if tc == "N":
            out.append("#%s:%d;" % (model.dbits(n.num), n.vint))
        elif tc in "SR":
            if n.is_ref and not follow:
                out.append("s?")
            else:
                sv = self.string_view(n)
                out.append("s" + model.c_bytes(sv).hex() + ";")
        if tc in "AO":
            if n.is_ref:
                if follow and not n.dangling and id(n) not in stack:
                    stack = stack | {id(n)}
                    for c in self.ref_children(n):
                        self._dump(out, c, follow, stack)
            else:
                for c in n.children:
                    self._dump(out, c, follow, stack)
        out.append(")")

    def string_view(self, n):
        if n.is_ref and n.ref_str_of is not None and n.ref_str_of != "arena":
            return n.ref_str_of.sval
        return n.sval

    def pinned(self, n):
        """n (or something inside it) is borrowed by a live reference elsewhere"""
        def rec(x):
            if x.pins > 0:
                return True
            if x.is_ref:
                return False
            return any(rec(c) for c in x.children)
        return rec(n)

    # ------------------------------------------------------------ checking
    def check_all(self, what):
        lib = self.lib
        for r in self.roots:
            follow = 0 if self.has_dangling(r) else 1
            got, flags, _, _ = lib.dump(r.ptr, follow, 1)
            got = CONST_FLAG_RE.sub(r"(\1", SCALAR_REF_RE.sub(r"(\1\2", got))
            want = CONST_FLAG_RE.sub(r"(\1", self.expected_dump(r, bool(follow)))
            # the constant-key flag is judged by what it means, not by who the model thinks set it: a flagged name is borrowed (not a
            # block of the library's allocator), an unflagged name is owned (a live block).  Keeping a caller's constant, copying
            # it, or pointing at a constant of the library's own are all fine.
            bad = lib.tree_name_flag_conflicts(r.ptr)
            if bad:
                raise Violation("after %s: %d member name(s) whose constant-key flag contradicts where the name lives (flagged but allocated by the "
                                "library, or not flagged but not a live block)" % (what, bad), key="const-flag")
            if flags & 32 and self.keyless_member(r):
                # copies of object views over key-less items legitimately hold key-less members
                flags &= ~32
            if flags:
                raise Violation("after %s: structural defect %s in a live tree (%s)" % (what, flag_names(flags), got[:160]),
                                key="structure:" + ",".join(flag_names(flags)))
            if got != want:
                raise Violation("after %s: tree differs from the list/map model: %s" % (what, model.explain_dump_diff(got, want)),
                                key="model-mismatch")

    def expect(self, what, got, want):
        if got != want:
            raise Violation("%s returned %r, the model predicts %r" % (what, got, want), key="return:" + what.split("(")[0])

    def forget(self, n):
        """model side of deleting subtree n: unpin targets, mark references to things inside n dangling"""
        doomed = set()

        def rec(x):
            doomed.add(id(x))
            if x.is_ref:
                self.unpin(x)
                return
            for c in x.children:
                rec(c)
        rec(n)
        for x in self.all_nodes():
            if x.is_ref and not x.dangling:
                tgt = x.ref_head if x.t in "AO" else (x.ref_str_of if x.ref_str_of != "arena" else None)
                if tgt is not None and id(tgt) in doomed:
                    x.dangling = True

    def unpin(self, ref):
        tgt = ref.ref_head if ref.t in "AO" else (ref.ref_str_of if ref.ref_str_of not in (None, "arena") else None)
        if tgt is not None and not ref.dangling:
            tgt.pins -= 1

    # ------------------------------------------------------------ creation
    def mk(self, t, ptr, **kw):
        if not ptr:
            raise Violation("create call for %s returned NULL without an allocation failure" % t, key="create-null")
        n = MNode(t, ptr)
        for k, v in kw.items():
            setattr(n, k, v)
        return n

    def mknum(self, ptr, d):
        return self.mk("N", ptr, num=float(d), vint=sat_int(float(d)))

    def build(self, jv):
        """model + library tree for a JV (construction API); returns detached MNode (not registered as root)"""
        lib = self.lib
        t = jv[0]
        if t == "n":
            return self.mk("n", lib.cJSON_CreateNull())
        if t == "t":
            return self.mk("t", lib.cJSON_CreateTrue())
        if t == "f":
            return self.mk("f", lib.cJSON_CreateFalse())
        if t in "NL":
            d = model.num_value(jv)
            return self.mknum(lib.cJSON_CreateNumber(d), d)
        if t == "S":
            return self.mk("S", lib.cJSON_CreateString(jv[1]), sval=model.c_bytes(jv[1]))
        if t == "R":
            return self.mk("R", lib.cJSON_CreateRaw(jv[1]), sval=model.c_bytes(jv[1]))
        if t == "A":
            a = self.mk("A", lib.cJSON_CreateArray())
            for ch in jv[1]:
                c = self.build(ch)
                if not lib.cJSON_AddItemToArray(a.ptr, c.ptr):
                    raise Violation("AddItemToArray refused a fresh item", key="build")
                c.parent = a
                a.children.append(c)
            return a
        if t == "O":
            o = self.mk("O", lib.cJSON_CreateObject())
            for k, ch in jv[1]:
                c = self.build(ch)
                if not lib.cJSON_AddItemToObject(o.ptr, k, c.ptr):
                    raise Violation("AddItemToObject refused a fresh item", key="build")
                c.key = model.c_bytes(k)
                c.parent = o
                o.children.append(c)
            return o
        raise ValueError(t)

    def adopt_parsed(self, ptr, jv, key=None):
        """model for a tree that came out of the parser (jv is what the text denotes)"""
        t = jv[0]
        lib = self.lib
        if t in "NL":
            d = model.num_value(jv)
            n = self.mknum(ptr, d)
        elif t in "SR":
            n = self.mk(t, ptr, sval=model.c_bytes(jv[1]))
        elif t in "ntf":
            n = self.mk(t, ptr)
        else:
            n = self.mk(t, ptr)
            kids = lib.children(ptr)
            members = jv[1]
            if len(kids) != len(members):
                raise Violation("parsed container has %d children, text has %d" % (len(kids), len(members)), key="parse-shape")
            for kp, m in zip(kids, members):
                if t == "A":
                    c = self.adopt_parsed(kp, m)
                else:
                    c = self.adopt_parsed(kp, m[1])
                    c.key = model.c_bytes(m[0])
                c.parent = n
                n.children.append(c)
        return n

    def to_jv(self, n, follow=True):
        """model node -> JV (references resolved to what they show)"""
        t = n.t
        if t in "ntf":
            return [t]
        if t == "N":
            return ["N", n.num]
        if t in "SR":
            return [t, self.string_view(n)]
        kids = self.ref_children(n) if n.is_ref else n.children
        if t == "A":
            return ["A", [self.to_jv(c) for c in kids]]
        return ["O", [[c.key if c.key is not None else b"", self.to_jv(c)] for c in kids]]

    # ------------------------------------------------------------ deletion
    def delete_root(self, r):
        self.forget(r)
        self.lib.cJSON_Delete(r.ptr)
        self.roots.remove(r)

    def delete_all(self):
        """final obligatory step: references first is NOT required by the API; delete in slot order"""
        for r in list(self.roots):
            self.delete_root(r)
