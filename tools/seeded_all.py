#!/usr/bin/env python3
"""Re-runs, for every seeded change, the quick tier of the check(s) recorded as catching it (or of the owning property)
against a patched scratch worktree, and reports the changes that are no longer caught.  seeded_all.py [--only C06,C12]"""
import json
import os
import sys
sys.path.insert(0, os.path.dirname(os.path.abspath(__file__)))
import seeded

ROOT = os.path.dirname(os.path.dirname(os.path.abspath(__file__)))


def main():
    only = None
    if "--only" in sys.argv:
        only = set(sys.argv[sys.argv.index("--only") + 1].split(","))
    missed = []
    n = 0
    for d in sorted(os.listdir(os.path.join(ROOT, "seeded"))):
        mp = os.path.join(ROOT, "seeded", d, "meta.json")
        if not os.path.isfile(mp):
            continue
        m = json.load(open(mp))
        prop = m["breaks_property"]
        if only and prop not in only:
            continue
        checks = sorted(set(c.split("/")[0] for c in m.get("caught_by", [])) or {prop})
        primary = prop if prop in checks else checks[0]
        r = seeded.run_checks(os.path.join(ROOT, "seeded", d), [primary], "quick")
        n += 1
        v = r.get(primary, {})
        ok = isinstance(v, dict) and v.get("rc") == 1 and any("VIOLATION" in l for l in v.get("lines", []))
        print("%s -> %s: %s (%ss)" % (d, primary, "caught" if ok else "MISSED", v.get("wall_s") if isinstance(v, dict) else "?"), flush=True)
        if not ok:
            missed.append(d)
    print("SEEDED DONE: %d changes, %d missed: %s" % (n, len(missed), missed))
    return 1 if missed else 0


if __name__ == "__main__":
    sys.exit(main())
