#!/usr/bin/env python3
"""budget_table.py: rewrites the 'workers x cases' and 'measured quick run' columns of the table in DESIGN.md section 3.21
from the budgets in the code and the committed evidence files (the fuzz and level columns are kept as written)."""
import importlib
import json
import os
import re
import sys

ROOT = os.path.dirname(os.path.dirname(os.path.abspath(__file__)))
sys.path.insert(0, ROOT)


def human(n):
    if n >= 10 ** 6:
        return "%.1f M" % (n / 1e6)
    if n >= 10 ** 4:
        return "%.0f k" % (n / 1e3)
    if n >= 10 ** 3:
        return "%.1f k" % (n / 1e3)
    return str(n)


def main():
    p = os.path.join(ROOT, "DESIGN.md")
    s = open(p).read()
    for i in range(1, 21):
        pid = "C%02d" % i
        P = importlib.import_module("verif.props.c%02d" % i).PROP
        q, t = P.budget("quick"), P.budget("thorough")
        e = json.load(open(os.path.join(ROOT, "evidence", pid + ".json")))
        c = e["coverage"]
        m = re.search(r"^\| %s \|([^|]*)\|([^|]*)\|([^|]*)\|([^|]*)\|([^|]*)\|([^|]*)\|$" % pid, s, re.M)
        if not m:
            print("no row for", pid)
            continue
        measured = "%s cases, %s inner, %s fuzz execs, %d s" % (human(c.get("hypothesis_cases", 0)), human(c.get("inner_iterations", 0)),
                                                               human(c.get("libfuzzer_execs", 0)), round(e.get("wall_s", 0)))
        row = "| %s | %d x %d |%s| %d x %d |%s| %s |%s|" % (pid, q["workers"], q["examples"], m.group(2), t["workers"], t["examples"], m.group(4),
                                                           measured, m.group(6))
        s = s[:m.start()] + row + s[m.end():]
    open(p, "w").write(s)


if __name__ == "__main__":
    main()
