#!/usr/bin/env python3
"""Writes /verif/MANIFEST.json from the table below (kept in one place so the file is always valid)."""
import json
import os

ROOT = os.path.dirname(os.path.dirname(os.path.abspath(__file__)))

CHECKS = {
    "C02": dict(
        technique="property-based testing (Hypothesis): grammar-generated RFC 8259 texts vs expected dumps from a Python value model",
        text="Generated-input search: every generated valid text must be accepted by all four entry points (9 entry/flag/"
             "terminator variants, guard-page and exact-size heap placement) and the decoded tree must equal, byte for byte and "
             "bit for bit, the dump predicted by an independent Python model (correctly rounded float(), UTF-8 of the code points). "
             "Exploration, not proof: holds on everything generated.",
        note="Trusted: Python float()/UTF-8 codec as the reference decoder, the native dumper, ASan/UBSan. Only the C locale exists here.",
        ref="3 C02"),
}

PENDING = {
}

ALL = ["C%02d" % i for i in range(1, 21)]


def main():
    checks = []
    for pid in ALL:
        if pid not in CHECKS:
            continue
        c = CHECKS[pid]
        checks.append({
            "property_id": pid,
            "quick_cmd": "python3-vt check.py %s --tier quick" % pid,
            "thorough_cmd": "python3-vt check.py %s --tier thorough" % pid,
            "evidence_file": "/verif/evidence/%s.json" % pid,
            "replay_cmd_template": "python3-vt check.py %s --replay {path}" % pid,
            "engine": c.get("engine", "hypothesis+ctypes shim (ASan/UBSan)"),
            "level_claimed": {"category": c.get("level", "exploration"), "text": c["text"], "design_ref": "DESIGN.md section " + c["ref"]},
            "level_note": c["note"],
            "technique": c["technique"],
        })
    na = []
    for pid in ALL:
        if pid not in CHECKS:
            na.append({"property_id": pid, "reason": PENDING.get(pid, "check not built yet (work in progress; the technique applies, see DESIGN.md section 3)")})
    m = {
        "version": 1,
        "setup_cmd": "python3-vt tools/setup.py",
        "hooks": {
            "guard": "CJSON_VERIF",
            "enable": "checks compile /repo/cJSON.c and /repo/cJSON_Utils.c with -DCJSON_VERIF; no source hooks exist (everything is observed through the public API, cJSON_InitHooks, link-time --wrap of the allocator, guard pages and sanitizers)",
            "baseline_off_cmd": "sh tools/baseline.sh",
            "source_commits": [],
            "add_only": True,
        },
        "engines": [
            {"name": "hypothesis+ctypes shim", "path": "verif/", "serves_properties": sorted(CHECKS),
             "kind_free_text": "Hypothesis 6.168 (python3-vt) driving an ASan+UBSan build of the library through ctypes; ledger allocator, guard pages, canonical tree dumper"},
            {"name": "libFuzzer targets", "path": "native/fz_*.c", "serves_properties": [p for p in sorted(CHECKS) if CHECKS[p].get("fuzz")],
             "kind_free_text": "clang -fsanitize=fuzzer,address,undefined byte-level targets with semantic oracles inside"},
        ],
        "checks": checks,
        "not_applicable": na,
        "notes": "All checks rebuild the library from /repo's working tree into build/<id>.<pid>/ and remove it afterwards. VERIF_SEED selects the Hypothesis/libFuzzer seeds.",
    }
    with open(os.path.join(ROOT, "MANIFEST.json"), "w") as f:
        json.dump(m, f, indent=1)
        f.write("\n")
    try:
        import jsonschema
        jsonschema.validate(m, json.load(open("/root/.vp/MANIFEST.schema.json")))
        print("MANIFEST.json valid; %d checks, %d not_applicable" % (len(checks), len(na)))
    except ImportError:
        print("written (jsonschema not available)")


if __name__ == "__main__":
    main()
