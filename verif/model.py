"""Reference model of JSON values (JV), expected dumps, text emission, equalities.

JV (plain JSON-serialisable lists so that cases can be stored as replay files):
  ["n"] ["t"] ["f"]
  ["N", double]            number given as a double (construction API)
  ["L", "literal"]         number given as a JSON literal (parsed text)
  ["S", bytes] ["R", bytes]
  ["A", [jv, ...]]
  ["O", [[keybytes, jv], ...]]          ordered, duplicates allowed
  ["D", pattern, depth, leaf]          `depth` nested single-child containers, level i is an
                                        array if pattern[i % len] == "[" else an object with key "k"
"""
import math
import struct
import sys

sys.setrecursionlimit(200000)

INT_MAX = 2147483647
INT_MIN = -2147483648
DBL_EPSILON = 2.220446049250313e-16


def dbits(d):
    return struct.pack(">d", d).hex()


def from_bits(h):
    return struct.unpack(">d", bytes.fromhex(h))[0]


def valueint(d):
    """the integer view: the double truncated toward zero, saturated to the int range"""
    if d != d:
        return None
    if d >= INT_MAX:
        return INT_MAX
    if d <= INT_MIN:
        return INT_MIN
    return int(d)


def num_value(jv):
    if jv[0] == "N":
        return float(jv[1])
    return float(jv[1])  # "L": Python's correctly rounded conversion of the literal


def expand(jv):
    """rewrite D nodes as ordinary nested containers"""
    t = jv[0]
    if t == "D":
        cur = expand(jv[3])
        pat = jv[1]
        for i in range(jv[2] - 1, -1, -1):
            if pat[i % len(pat)] == "[":
                cur = ["A", [cur]]
            else:
                cur = ["O", [[b"k", cur]]]
        return cur
    if t == "A":
        return ["A", [expand(x) for x in jv[1]]]
    if t == "O":
        return ["O", [[k, expand(v)] for k, v in jv[1]]]
    return jv


# ------------------------------------------------------------------ expected dump
def _dump_into(out, jv, key, const, ref):
    t = jv[0]
    if t == "D":
        pat = jv[1]
        closes = 0
        k = key
        for i in range(jv[2]):
            arr = pat[i % len(pat)] == "["
            out.append("(" + ("A" if arr else "O") + (("k" + k.hex() + ";") if k is not None else ""))
            closes += 1
            k = None if arr else b"k"
        _dump_into(out, jv[3], k, False, False)
        out.append(")" * closes)
        return
    tc = {"n": "n", "t": "t", "f": "f", "N": "N", "L": "N", "S": "S", "R": "R", "A": "A", "O": "O"}[t]
    out.append("(" + tc + ("c" if const else "") + ("r" if ref else ""))
    if key is not None:
        out.append("k" + key.hex() + ";")
    if tc == "N":
        d = num_value(jv)
        out.append("#%s:%d;" % (dbits(d), valueint(d)))
    elif tc in "SR":
        out.append("s" + c_bytes(jv[1]).hex() + ";")
    elif tc == "A":
        for ch in jv[1]:
            _dump_into(out, ch, None, False, False)
    elif tc == "O":
        for k, ch in jv[1]:
            _dump_into(out, ch, c_bytes(k), False, False)
    out.append(")")


def c_bytes(b):
    """what a C string holding these bytes shows: cut at the first zero"""
    i = b.find(b"\x00")
    return b if i < 0 else b[:i]


def expected_dump(jv, key=None):
    out = []
    _dump_into(out, jv, key, False, False)
    return "".join(out)


def first_diff(a, b):
    n = min(len(a), len(b))
    for i in range(n):
        if a[i] != b[i]:
            return i
    return n


def explain_dump_diff(got, want):
    i = first_diff(got, want)
    lo = max(0, i - 40)
    return "dumps differ at offset %d: got ...%s | want ...%s" % (i, got[lo:i + 60], want[lo:i + 60])


# ------------------------------------------------------------------ text emission
SHORT_ESC = {0x22: b'\\"', 0x5C: b"\\\\", 0x2F: b"\\/", 0x08: b"\\b", 0x0C: b"\\f", 0x0A: b"\\n",
             0x0D: b"\\r", 0x09: b"\\t"}
WS = [b" ", b"\t", b"\n", b"\r"]


def _hex4(v, rnd):
    s = "%04x" % v
    if rnd is None:
        return s.encode()
    return "".join((c.upper() if rnd.random() < 0.5 else c) for c in s).encode()


def emit_codepoint(cp, rnd, style=None):
    """one code point of a string literal. style: None random, 'raw', 'u', 'short'"""
    choices = []
    if cp >= 0x20 and cp not in (0x22, 0x5C):
        choices.append("raw")
    if cp in SHORT_ESC:
        choices.append("short")
    choices.append("u")
    if style is None or style not in choices:
        if rnd is None:
            style = choices[0]
        else:
            # favour raw for readability but keep every form frequent
            style = rnd.choice(choices)
    if style == "raw":
        return chr(cp).encode("utf-8", "surrogatepass")
    if style == "short":
        return SHORT_ESC[cp]
    if cp > 0xFFFF:
        v = cp - 0x10000
        return b"\\u" + _hex4(0xD800 + (v >> 10), rnd) + b"\\u" + _hex4(0xDC00 + (v & 0x3FF), rnd)
    return b"\\u" + _hex4(cp, rnd)


def emit_string(b, rnd, style=None):
    """string literal denoting the bytes b (valid UTF-8, no U+0000)"""
    out = [b'"']
    try:
        text = b.decode("utf-8")
    except UnicodeDecodeError:
        if style == "strict":
            raise
        # not valid UTF-8 (lenient dialect only): bytes pass through raw, with the minimal escaping
        for c in b:
            if c in (0x22, 0x5C) or c < 0x20:
                out.append(SHORT_ESC.get(c) or (b"\\u%04x" % c))
            else:
                out.append(bytes([c]))
        out.append(b'"')
        return b"".join(out)
    for ch in text:
        out.append(emit_codepoint(ord(ch), rnd, style))
    out.append(b'"')
    return b"".join(out)


def ws(rnd, p=0.35):
    if rnd is None or rnd.random() > p:
        return b""
    return b"".join(rnd.choice(WS) for _ in range(rnd.randint(1, 3)))


def emit_text(jv, rnd=None, style=None, wsp=0.35):
    """RFC 8259 text for jv with whitespace / escape choices drawn from rnd (random.Random)"""
    out = []
    _emit(out, jv, rnd, style, wsp)
    return b"".join(out)


def _emit(out, jv, rnd, style, wsp):
    t = jv[0]
    if t == "n":
        out.append(b"null")
    elif t == "t":
        out.append(b"true")
    elif t == "f":
        out.append(b"false")
    elif t == "L":
        out.append(jv[1].encode())
    elif t == "N":
        out.append(repr(float(jv[1])).encode())
    elif t == "S":
        out.append(emit_string(jv[1], rnd, style))
    elif t == "R":
        out.append(jv[1])
    elif t == "A":
        out.append(b"[")
        out.append(ws(rnd, wsp))
        for i, ch in enumerate(jv[1]):
            if i:
                out.append(b",")
                out.append(ws(rnd, wsp))
            _emit(out, ch, rnd, style, wsp)
            out.append(ws(rnd, wsp))
        out.append(b"]")
    elif t == "O":
        out.append(b"{")
        out.append(ws(rnd, wsp))
        for i, (k, ch) in enumerate(jv[1]):
            if i:
                out.append(b",")
                out.append(ws(rnd, wsp))
            out.append(emit_string(k, rnd, style))
            out.append(ws(rnd, wsp))
            out.append(b":")
            out.append(ws(rnd, wsp))
            _emit(out, ch, rnd, style, wsp)
            out.append(ws(rnd, wsp))
        out.append(b"}")
    elif t == "D":
        pat = jv[1]
        closes = []
        for i in range(jv[2]):
            if pat[i % len(pat)] == "[":
                out.append(b"[")
                closes.append(b"]")
            else:
                out.append(b'{"k":')
                closes.append(b"}")
        _emit(out, jv[3], rnd, style, wsp)
        out.append(b"".join(reversed(closes)))
    else:
        raise ValueError("bad jv %r" % (t,))


# ------------------------------------------------------------------ measures
def depth_of(jv):
    t = jv[0]
    if t == "D":
        return jv[2] + depth_of(jv[3])
    if t == "A":
        return 1 + max([depth_of(x) for x in jv[1]] or [0])
    if t == "O":
        return 1 + max([depth_of(v) for _, v in jv[1]] or [0])
    return 0


def count_nodes(jv):
    t = jv[0]
    if t == "D":
        return jv[2] + count_nodes(jv[3])
    if t == "A":
        return 1 + sum(count_nodes(x) for x in jv[1])
    if t == "O":
        return 1 + sum(count_nodes(v) for _, v in jv[1])
    return 1


def walk_jv(jv):
    """yields every node (D nodes are yielded as such, then their leaf)"""
    yield jv
    t = jv[0]
    if t == "D":
        for x in walk_jv(jv[3]):
            yield x
    elif t == "A":
        for ch in jv[1]:
            for x in walk_jv(ch):
                yield x
    elif t == "O":
        for _, ch in jv[1]:
            for x in walk_jv(ch):
                yield x


# ------------------------------------------------------------------ equalities
def num_close(x, y, eps=DBL_EPSILON):
    if x != x or y != y:
        return False
    if math.isinf(x) or math.isinf(y):
        return x == y
    return abs(x - y) <= eps * max(abs(x), abs(y))


def fold(b):
    return bytes((c + 32) if 65 <= c <= 90 else c for c in b)


def eq_set(a, b, case_sensitive=True, tol=True):
    """semantic equality: objects as key->value maps, numbers within relative DBL_EPSILON"""
    ta, tb = a[0], b[0]
    na = ta in "NL"
    nb = tb in "NL"
    if na or nb:
        if not (na and nb):
            return False
        x, y = num_value(a), num_value(b)
        return num_close(x, y) if tol else (x == y)
    if ta != tb:
        return False
    if ta in "ntf":
        return True
    if ta in "SR":
        return c_bytes(a[1]) == c_bytes(b[1])
    if ta == "A":
        return len(a[1]) == len(b[1]) and all(eq_set(x, y, case_sensitive, tol) for x, y in zip(a[1], b[1]))
    if ta == "O":
        if len(a[1]) != len(b[1]):
            return False
        f = (lambda k: k) if case_sensitive else fold
        mb = {}
        for k, v in b[1]:
            mb.setdefault(f(c_bytes(k)), v)
        if len(mb) != len(b[1]):
            # duplicate keys: compare as ordered multimaps of first occurrences only if sizes agree
            pass
        for k, v in a[1]:
            w = mb.get(f(c_bytes(k)))
            if w is None or not eq_set(v, w, case_sensitive, tol):
                return False
        ma = {}
        for k, v in a[1]:
            ma.setdefault(f(c_bytes(k)), v)
        for k, v in b[1]:
            if f(c_bytes(k)) not in ma:
                return False
        return True
    raise ValueError(ta)
