"""C20 - independent trees can be used from different threads concurrently."""
import os
import random
import re
import subprocess

from hypothesis import strategies as st

from .. import gens, model
from ..core import Prop, Violation

DOCS = [
    b'{"a":[1,2.5,-3.25e10,0.1,1e-7,123456789.125],"b":{"c":true,"d":null,"e":"text"},"f":"\\u00e9\\n"}',
    b'[0.30000000000000004,1.7976931348623157e308,5e-324,2147483648,-0.0,3.141592653589793]',
    b'{"k":{"k":{"k":[[],{},[1.5,[2.5,[3.5]]]]}},"K":1}',
    b'[{"id":1,"name":"x","tags":["a","b"]},{"id":2,"name":"y","tags":[]},{"id":3.5}]',
    b'{"z":1,"y":2,"x":{"b":1.25,"a":2.75,"B":3},"w":[1,2,3]}',
    b'"just a string with \\"escapes\\" \\\\ and \\/"',
    b'12345.678',
    b'[[[[[[[[[[1.1]]]]]]]]]]',
    b'{"a/b":{"m~n":[10.5,20.25]},"":0.5}',
    b'[1,2',
    b'{"a":',
    b'[1e999,-1e999]',
]
PATCHES = [
    b'[{"op":"add","path":"/a/-","value":9.75},{"op":"test","path":"/b/c","value":true}]',
    b'[{"op":"replace","path":"","value":{"n":[1.5,2.5]}}]',
    b'[{"op":"remove","path":"/k/k"},{"op":"add","path":"/new","value":{"x":0.125}}]',
    b'[{"op":"copy","from":"/x","path":"/x2"},{"op":"move","from":"/w/0","path":"/w/-"}]',
    b'{"a":null,"b":{"c":false,"z":1.5},"q":[0.25]}',
    b'{"x":{"a":null,"c":9.5}}',
    b'[1.5]',
    b'[{"op":"remove","path":""}]',
    b'[{"op":"copy","from":"/a","path":""}]',
    b'[{"op":"test","path":"","value":{}},{"op":"remove","path":""}]',
    b'[{"op":"add","path":"/a~1b/m~0n/-","value":1.5},{"op":"replace","path":"/a~1b/m~0n/0","value":2.5}]',
    b'[{"op":"copy","from":"/a~1b/m~0n/1","path":"/a~1b/m~0n/0"},{"op":"move","from":"/a~1b/m~0n","path":"/a~1b/x~1y"},{"op":"remove","path":"/a~1b/x~1y/0"}]',
]
POINTERS = [b"", b"/a/1", b"/b/e", b"/k/k/k/2/1/1/0", b"/0/tags/1", b"/x/B", b"/a~1b/m~0n/1", b"/nope", b"/w/2", b"/2/id"]
KEYS = [b"a", b"b", b"k", b"K", b"x", b"new key", b"id", b"z"]
MINIFY = [b'{ "a" : [1, 2 , 3.5] , /* c */ "b" : "x y" } // end', b'[ 1.25 , "a\\\\" , /* x */ 2 ]', b'"s" ',
          # texts whose last bytes are the middle of something: Minify must stop at the terminator of ITS buffer
          b'[1] // x\r', b'{"a" : 1}//\r', b'[2] /* open', b'[3] //', b'"unterminated \\', b'[4] /', b'[1, 2]\r', b'[5] /* a *', b'[6] // c\r\n', b'"a\\']


def generated_texts():
    """texts from the shared document generator: every escape kind, surrogate pairs, control characters, numbers of every
    spelling, long strings (print-buffer growth), BOM - so that both threads run through the rarely used code paths too"""
    leaves = st.one_of(gens.scalars_text(strings=gens.utf8_strings(10)),
                       gens.escapey_strings(12).map(lambda b: ["S", b]),
                       st.integers(200, 700).map(lambda n: ["S", (b"long string \xc3\xa9 " * 40)[:n]]))
    keys = st.one_of(gens.ascii_keys(4), gens.utf8_strings(3), st.sampled_from([b"a", b"A", b"k", b"K", b"x"]))
    docs = gens.shaped_documents(leaves, keys, max_leaves=10)
    return st.tuples(docs, st.integers(0, 2 ** 32 - 1), gens.chance(8)).map(
        lambda t: (b"\xef\xbb\xbf" if t[2] else b"") + model.emit_text(t[0], random.Random(t[1])))


# texts that end in the middle of a token (a record cut at the buffer end): the parser must stop AT the end of its buffer
CUT_TEXTS = [b"tru", b"nul", b"fals", b"[1,nul", b'{"a":fals', b"[tru", b"[1.5,tr", b'["abc', b'["a\\', b'["\\u00', b"[12", b"-", b"[1e", b'{"a"', b"[1,", b"\xef\xbb"]


def thread_program():
    text = st.one_of(st.sampled_from(DOCS), st.sampled_from(DOCS), generated_texts(), st.sampled_from(CUT_TEXTS))
    op = st.one_of(
        st.tuples(st.just("P"), st.integers(0, 7), st.integers(0, 3), st.integers(0, 1), st.just(0), text),
        st.tuples(st.just("P"), st.integers(0, 7), st.integers(0, 3), st.integers(0, 1), st.just(0), text),
        st.tuples(st.just("R"), st.integers(0, 7), st.integers(0, 3), st.integers(0, 1), st.integers(0, 399), st.just(b"")),
        st.tuples(st.just("R"), st.integers(0, 7), st.integers(0, 3), st.integers(0, 1), st.integers(0, 399), st.just(b"")),
        st.tuples(st.just("D"), st.integers(0, 7), st.integers(0, 7), st.integers(0, 1), st.just(0), st.just(b"")),
        st.tuples(st.just("C"), st.integers(0, 7), st.integers(0, 7), st.integers(0, 1), st.just(0), st.just(b"")),
        st.tuples(st.just("M"), st.just(0), st.just(0), st.just(0), st.just(0), st.sampled_from(MINIFY)),
        st.tuples(st.just("E"), st.integers(0, 7), st.integers(0, 7), st.integers(0, 40), st.just(0), st.sampled_from(KEYS)),
        st.tuples(st.just("U"), st.integers(0, 7), st.integers(0, 7), st.integers(0, 1), st.sampled_from([0, 0]), st.sampled_from(POINTERS)),
        st.tuples(st.just("U"), st.integers(0, 7), st.integers(0, 7), st.integers(0, 1), st.sampled_from([1, 3, 5, 5, 6, 6]), st.just(b"")),
        st.tuples(st.just("U"), st.integers(0, 7), st.integers(0, 7), st.integers(0, 1), st.sampled_from([2, 4]), st.sampled_from(PATCHES)),
        st.tuples(st.just("X"), st.integers(0, 7), st.just(0), st.just(0), st.just(0), st.just(b"")),
    ).map(list)
    # a few parses up front so that later ops find trees
    objdocs = st.sampled_from([d for d in DOCS if d[:1] == b"{" and d[-1:] == b"}"])
    head = st.tuples(st.tuples(st.just("P"), st.just(3), st.integers(0, 3), st.integers(0, 1), st.just(0), st.just(DOCS[8])).map(list),
                     st.tuples(st.just("P"), st.just(0), st.integers(0, 3), st.integers(0, 1), st.just(0), objdocs).map(list),
                     st.tuples(st.just("P"), st.just(1), st.integers(0, 3), st.integers(0, 1), st.just(0), objdocs).map(list),
                     st.lists(st.tuples(st.just("P"), st.integers(0, 3), st.integers(0, 3), st.integers(0, 1), st.just(0), text).map(list), max_size=2)
                     ).map(lambda t: [t[0], t[1], t[2]] + t[3])
    util = st.tuples(st.just("U"), st.integers(0, 2), st.integers(0, 2), st.integers(0, 1), st.sampled_from([1, 1, 3, 5, 0, 2, 4]), st.sampled_from(POINTERS + PATCHES)).map(list)
    # calls that every thread should make on its two object documents: both patch generators, sort, all print paths
    core = st.lists(st.sampled_from([["U", 0, 1, 0, 1, b""], ["U", 0, 1, 1, 1, b""], ["U", 1, 0, 1, 1, b""], ["U", 1, 0, 1, 3, b""], ["U", 0, 1, 0, 3, b""],
                                     ["U", 0, 1, 1, 5, b""], ["R", 0, 0, 1, 0, b""], ["R", 1, 1, 0, 0, b""], ["R", 0, 2, 1, 3, b""], ["R", 1, 3, 0, 0, b""],
                                     ["D", 2, 0, 1, 0, b""], ["C", 0, 1, 1, 0, b""], ["E", 0, 0, 7, 0, b"new key"],
                                     ["U", 0, 1, 1, 6, b""], ["U", 1, 2, 0, 6, b""], ["U", 0, 5, 1, 6, b""], ["U", 1, 0, 1, 6, b""],
                                     ["U", 2, 0, 1, 2, b'[{"op":"remove","path":""}]'],
                                     ["U", 3, 0, 1, 2, b'[{"op":"add","path":"/a~1b/m~0n/-","value":1.5},{"op":"add","path":"/a~1b/m~0n/0","value":[]}]'], ["U", 2, 0, 0, 2, b'[{"op":"replace","path":"","value":[1.5]}]']]), min_size=2, max_size=6)
    return st.tuples(head, core, st.lists(st.one_of(op, op, util), min_size=3, max_size=30)).map(lambda t: t[0] + t[1] + t[2])


def unexcused_report(stderr, stdout, stats=None):
    """first ThreadSanitizer report that is not a data race on the documented global error position.  The position's address is
    found by the driver by behaviour (lines "ERRPOS lo hi": the words of the data segment that follow the error offset of two
    failing probe parses), never by symbol name, so renaming or re-shaping that global changes nothing here."""
    if "ThreadSanitizer" not in stderr:
        return None
    ranges = []
    for l in stdout.splitlines():
        if l.startswith("ERRPOS "):
            _, lo, hi = l.split()
            ranges.append((int(lo, 16), int(hi, 16)))
    ranges.sort()
    merged = []
    for lo, hi in ranges:
        if merged and lo <= merged[-1][1]:
            merged[-1][1] = max(merged[-1][1], hi)
        else:
            merged.append([lo, hi])
    for b in stderr.split("=================="):
        if "WARNING: ThreadSanitizer" not in b:
            continue
        if "heap-use-after-free" in b and "Location is heap block of size 0 " in b:
            # an access "inside" a block of size 0: cJSON_PrintBuffered with prebuffer 0 under hooks without realloc copies one
            # byte out of its zero-length first block (one thread, no other thread involved; the detector merely sees the stale
            # state of whoever used that address before).  Not an interaction between threads, hence not a C20 matter.
            if stats is not None:
                stats.cls("zero_size_block_report_not_a_C20_matter")
            continue
        if "data race" in b and "Location is global" in b and merged:
            # the racing accesses: "Write of size 8 at 0x... by thread T1:" / "Previous read of size 8 at 0x... by main thread:"
            accs = [(int(a.group(2), 16), int(a.group(1))) for a in re.finditer(r"of size (\d+) at (0x[0-9a-f]+) by", b)]
            if accs and all(any(lo <= a and a + n <= hi for lo, hi in merged) for a, n in accs):
                if stats is not None:
                    stats.cls("documented_error_position_race_excused")
                continue
        return b
    return None


class C20(Prop):
    ID = "C20"
    NEEDS_TSAN = True
    COLD_PROBES = False   # every case already runs in a process of its own (the driver)
    # a failure that depends on the schedule need not recur on every replay; a digest that differs from the solo run or a
    # ThreadSanitizer report is never a false alarm, so one reproduction in eight fresh runs confirms it
    CONFIRM_TRIES = 8
    CONFIRM_NEED = 1
    RULE = ("2-6 thread programs per case, each a sequence of <= 33 library calls on thread-private slots and buffers: parse (ParseWithOpts / "
            "ParseWithLengthOpts with return_parse_end, valid and malformed texts, numbers of every print path), the four print variants, "
            "duplicate, compare, minify, edits (add/detach/replace/insert/set), JSON pointer get/find, patch generate/apply, merge patch "
            "apply/generate, sort, delete; never cJSON_GetErrorPtr / cJSON_InitHooks / setlocale. A driver built with gcc -fsanitize=thread "
            "(library and driver instrumented) runs every program alone (reference digest of all results) and then all of them concurrently "
            "behind a barrier for 3 rounds (the first one before anything else has used the library in the process), and finally 2-4 times in ONE thread with the calls of all programs interleaved in a drawn order (schedule owned by the harness, call granularity). In half of the cases custom allocation hooks (thread-safe, no realloc) are installed before the threads start, and a thread's k-th request inside core API calls may be refused (the solo run refuses the same request); in a third of those also inside utility calls, with no verdict when a program does not survive that alone (tried in a child process). Texts come from a fixed pool (incl. texts cut in the middle of a token) and from the shared document generator (all escape kinds, surrogate pairs, long strings, BOM); in half of the cases the threads' text buffers are adjacent slices of one block, each text flush against the end of its slice, each thread writing the first byte of its own slice. Oracle: no ThreadSanitizer report other than a data race whose every access lies in the documented global error position "
            "(located by behaviour: the words of the data segment that track the error offset of two failing probe parses; no symbol name is used) and every concurrent digest equals the solo digest. non-trivial = >= 2 threads that each "
            "execute a parse and a print of a tree containing numbers; distinct by case hash")
    ASSUMPTIONS = ["the harness does not own the scheduler: race detection is happens-before based (both accesses must be executed, not interleaved), "
                   "order-dependent but race-free defects are visible only under the schedules the OS produces",
                   "only instrumented code is observed (libc internals are not)"]
    REQUIRED_CLASSES = ["nontrivial", "threads>=4", "utils_ops", "generated_text", "interleaved_schedules", "custom_hooks", "allocation_failure_in_thread", "adjacent_text_buffers"]

    def budget(self, tier):
        return {"workers": 14, "examples": 45 if tier == "quick" else 1200}

    def strategy(self, tier):
        return st.fixed_dictionaries({"threads": st.lists(thread_program(), min_size=2, max_size=6),
                                      "schedules": st.lists(st.integers(0, 2 ** 31 - 1), min_size=2, max_size=4),
                                      # custom allocation hooks installed before the threads start (no realloc inside the library then);
                                      # failat[i] > 0: the i-th thread's k-th request inside core API calls is refused
                                      "hooks": st.booleans(),
                                      # refuse requests inside cJSON_Utils calls as well (no verdict if a program does not survive that alone)
                                      "failutils": gens.chance(3),
                                      # the threads' text buffers are adjacent slices of one block (each thread touches its own slice only)
                                      "slab": gens.chance(2),
                                      "failat": st.lists(st.one_of(st.just(0), st.integers(1, 40), st.integers(1, 400)), min_size=6, max_size=6)})

    def run_case(self, lib, case, stats):
        driver = os.environ.get("VERIF_TSAN_DRIVER")
        bdir = os.environ.get("VERIF_BUILD_DIR", "/tmp")
        if not driver:
            raise RuntimeError("VERIF_TSAN_DRIVER not set")
        path = os.path.join(bdir, "tsan_case.%d.txt" % os.getpid())
        lines = ["threads %d" % len(case["threads"]), "rounds 3"] + ["schedule %d" % x for x in case.get("schedules", [])]
        if case.get("slab"):
            lines.append("slab 1")
            stats.cls("adjacent_text_buffers")
        if case.get("hooks"):
            lines.append("hooks 1")
            stats.cls("custom_hooks")
            if case.get("failutils"):
                lines.append("failutils 1")
            for tid in range(len(case["threads"])):
                k = (case.get("failat") or [0] * 6)[tid % 6]
                if k:
                    lines.append("failat %d %d" % (tid, k))
                    stats.cls("allocation_failure_in_thread")
        prints = 0
        for tid, prog in enumerate(case["threads"]):
            for op in prog:
                s = op[5]
                lines.append("%d %s %d %d %d %d %s" % (tid, op[0], op[1], op[2], op[3], op[4], s.hex() if s else "-"))
        with open(path, "w") as f:
            f.write("\n".join(lines) + "\n")
        env = {"PATH": os.environ.get("PATH", "/usr/bin:/bin"),
               "TSAN_OPTIONS": "exitcode=0:halt_on_error=0:report_signal_unsafe=0:print_suppressions=0:history_size=4"}
        try:
            p = subprocess.run([driver, path], env=env, stdout=subprocess.PIPE, stderr=subprocess.PIPE, text=True, errors="replace", timeout=300)
        except subprocess.TimeoutExpired:
            raise Violation("thread programs did not finish within 300 s", key="hang")
        stats.inner += 3 * len(case["threads"])
        nthr = len(case["threads"])
        good = sum(1 for prog in case["threads"] if any(o[0] == "P" for o in prog) and any(o[0] == "R" for o in prog))
        if nthr >= 4:
            stats.cls("threads>=4")
        if any(o[0] == "U" for prog in case["threads"] for o in prog):
            stats.cls("utils_ops")
        if any(o[0] == "P" and o[5] not in DOCS for prog in case["threads"] for o in prog):
            stats.cls("generated_text")
        stats.cls("interleaved_schedules", len(case.get("schedules", [])))
        if good >= 2:
            stats.cls("nontrivial")
            stats.nontriv(case, {"threads": nthr, "ops_per_thread": [len(t) for t in case["threads"]],
                                 "first_thread": ["%s %d %d %d" % (o[0], o[1], o[2], o[3]) for o in case["threads"][0][:10]]})
        if "SOLO-FAILS" in p.stdout:
            stats.cls("utility_fault_not_survived_alone_(no_verdict)")
            return
        if case.get("hooks") and case.get("failutils"):
            stats.cls("allocation_failure_inside_utilities")
        bad_report = unexcused_report(p.stderr, p.stdout, stats)
        if bad_report:
            first = [l for l in bad_report.splitlines() if "WARNING: ThreadSanitizer" in l or l.strip().startswith("#0") or "Location is" in l or "SUMMARY" in l]
            raise Violation("ThreadSanitizer report: " + " | ".join(x.strip() for x in first[:6]), key="race")
        if "DIGEST-MISMATCH" in p.stdout:
            raise Violation("a thread got different results than when running alone: " + [l for l in p.stdout.splitlines() if "MISMATCH" in l][0], key="digest")
        if p.returncode != 0:
            raise Violation("driver exited %d: %s" % (p.returncode, (p.stderr or p.stdout)[-300:]), key="driver-exit")

    def shrink_candidates(self, case):
        th = case["threads"]
        out = []
        if len(th) > 2:
            for i in range(len(th)):
                out.append(dict(case, threads=th[:i] + th[i + 1:]))
        return out


PROP = C20()
