"""C01 - parsing arbitrary bytes is memory-safe, bounded and terminates."""
import ctypes
import random

from hypothesis import strategies as st

from .. import gens, model, fuzzplan
from ..core import Prop, Violation
from ..lib import SweepOut

BOM = b"\xef\xbb\xbf"
REPL = b'\\"u[{,:-e.\x00\xff]}0t/*xXinN+\''


def net_depth(opener):
    """nesting levels that stay open after one repetition of the opener"""
    d = 0
    for c in opener:
        if c in b"[{":
            d += 1
        elif c in b"]}":
            d -= 1
    return d


def closer_of(opener):
    """closes what one repetition of the opener leaves open"""
    stack = []
    for c in opener:
        if c in b"[{":
            stack.append(b"]" if c == 0x5B else b"}")
        elif c in b"]}":
            stack.pop()
    return b"".join(reversed(stack))


class C01(Prop):
    ID = "C01"
    RULE = ("(a) libFuzzer target fz_parse: byte 0 selects entry point/flags/placement, rest is the payload, placed in an "
            "exact-size heap block or read-only flush against a PROT_NONE page; (b) Hypothesis: generated valid texts, "
            "for each EVERY prefix length x 4 entry points x flags, plus at every position a replacement by each of "
            "18 structural bytes (parsed complete and truncated right after the edit); (c) nesting shapes of depth "
            "limit-1..limit+2, 10^5 and 10^6. Oracle: no sanitizer report or fault, input unmodified, result NULL or a "
            "tree that walks clean, prints and deletes to an empty ledger. non-trivial = the parser advanced past the first "
            "token (tree with a child, or error/invalid offset >= 2) for fuzz inputs; texts of >= 8 bytes for the sweep; "
            "distinct = by input hash")
    ASSUMPTIONS = ["this x86-64 glibc build only (strtod/locale of other platforms not explored)",
                   "termination: libFuzzer -timeout=10 on inputs <= 4 KiB, Hypothesis cases run to completion"]
    REQUIRED_CLASSES = ["sweep_text", "deep_shape", "long_number_run", "wide_shape"]

    def budget(self, tier):
        return {"workers": 8, "examples": 60 if tier == "quick" else 2500}

    def fuzz_plan(self, tier):
        return [fuzzplan.parse_plan(tier, 400000, 8000000, procs_quick=8, procs_thorough=8)]

    def strategy(self, tier):
        leaves = gens.scalars_text(strings=gens.utf8_strings(8))
        keys = st.one_of(gens.utf8_strings(4), gens.ascii_keys(3))
        docs = gens.documents(leaves, keys, max_leaves=10, max_width=4)
        sweep = st.fixed_dictionaries({
            "kind": st.just("sweep"),
            "jv": docs,
            "rseed": st.integers(0, 2 ** 32 - 1),
            "bom": gens.chance(5),
        })
        deep = st.fixed_dictionaries({
            "kind": st.just("deep"),
            "open": st.sampled_from(["[", '{"a":', '[{"a":', ' [ ', '{"a":[', "[[],", '{"e":{},"a":', "[{},[],", '{"e":[],"a":[', "[1,"]),
            "rel": st.sampled_from([-1, 0, 1, 2, 99000, 999000]),
            "closed": st.booleans(),
            "entry": st.integers(0, 3),
            "flags": st.integers(0, 3),
        })
        longnum = st.fixed_dictionaries({
            "kind": st.just("longnum"),
            "prefix": st.sampled_from([b"", b"[", b"[1,", b'{"a":', b" ", b"\xef\xbb\xbf", b"-", b"[-"]),
            "run": st.sampled_from([60, 61, 62, 63, 64, 65, 66, 70, 127, 128, 129, 200]),
            "chars": st.sampled_from([b"1", b"0", b"9", b"12345678.9", b"1e+", b"-", b".", b"e", b"1.5E-3"]),
        })
        wide = st.fixed_dictionaries({
            "kind": st.just("wide"),
            "element": st.sampled_from([b"0", b"[]", b'{"a":1}', b'"s"', b"null"]),
            "count": st.sampled_from([150000, 400000, 1000000]),
            "how": st.sampled_from(["complete", "truncated", "bad_tail", "object"]),
            "entry": st.integers(0, 3),
        })
        return st.one_of(sweep, sweep, sweep, sweep, sweep, sweep, sweep, sweep, sweep, sweep, sweep, sweep, deep, deep, longnum, longnum, wide)

    def run_case(self, lib, case, stats):
        if case["kind"] == "wide":
            # very wide, shallow containers: no recursion over siblings may happen anywhere (parse, fail path, print, delete)
            el, cnt, how = case["element"], case["count"], case["how"]
            if how == "object":
                body = b",".join(b'"k%d":' % (i % 10) + el for i in range(cnt))
                text = b"{" + body + b"}"
            else:
                text = b"[" + b",".join([el] * cnt)
                text += b"]" if how == "complete" else (b"" if how == "truncated" else b",}")
            entry = case["entry"]
            data = text + (b"\x00" if entry < 2 else b"")
            live = lib.ledger_live()
            po = lib.parse(entry, data, 1, 0, 1)
            stats.inner += 1
            stats.cls("wide_shape")
            stats.nontriv(["wide", el, cnt, how, entry], {"element": el, "count": cnt, "how": how})
            if po.tree:
                if lib.cJSON_GetArraySize(po.tree) != cnt:
                    lib.cJSON_Delete(po.tree)
                    raise Violation("wide container parsed to %d children, text has %d" % (lib.cJSON_GetArraySize(po.tree), cnt), key="wide-count")
                t = lib.take_text(lib.cJSON_PrintUnformatted(po.tree))
                lib.cJSON_Delete(po.tree)
                if t is None:
                    raise Violation("wide tree cannot be printed", key="print")
            elif how in ("complete", "object"):
                raise Violation("valid wide document rejected", key="wide-rejected")
            if lib.ledger_live() != live:
                raise Violation("allocations left behind after a wide document", key="leak")
            return
        if case["kind"] == "longnum":
            # runs of number characters around the 63-byte copy limit, ending exactly at the end of the buffer
            run = (case["chars"] * 256)[:case["run"]]
            text = case["prefix"] + run
            so = SweepOut()
            # every prefix of the text: the run then ends at the buffer end with every length up to `run`
            lib.sweep_prefixes(text, len(text), b"", 0, 0, ctypes.byref(so))
            stats.inner += int(so.iterations)
            stats.cls("long_number_run")
            stats.nontriv(text, {"text": text})
            if so.code:
                raise Violation("long number run: %s (length=%d entry/flags=%d) on %r" % (so.msg.decode(), so.b, so.c, text), key="sweep:%d" % so.code)
            return
        if case["kind"] == "sweep":
            rnd = random.Random(case["rseed"])
            text = (BOM if case["bom"] else b"") + model.emit_text(case["jv"], rnd)
            text = text[:240]
            stride = 1 if len(text) <= 80 else 3
            so = SweepOut()
            lib.sweep_prefixes(text, len(text), REPL, len(REPL), stride, ctypes.byref(so))
            stats.inner += int(so.iterations)
            stats.cls("sweep_text")
            stats.cls("sweep_accepted_parses", int(so.accepted))
            if len(text) >= 8:
                stats.nontriv(text, {"text": text, "parses": int(so.iterations), "accepted": int(so.accepted)})
            if so.code:
                raise Violation("prefix/edit sweep: %s (variant=%d length=%d entry/flags=%d) on %r" % (
                    so.msg.decode(), so.a, so.b, so.c, text), key="sweep:%d" % so.code)
        else:
            depth = lib.nesting_limit + case["rel"]
            opener = case["open"].encode()
            text = opener * depth
            if case["closed"]:
                text += b"1"
                text += closer_of(opener) * depth
            entry = case["entry"]
            data = text + (b"\x00" if entry < 2 or (case["flags"] & 2) else b"")
            live = lib.ledger_live()
            po = lib.parse(entry, data, 0, case["flags"] & 1, 1)
            stats.inner += 1
            stats.cls("deep_shape")
            per_open = net_depth(opener)
            real_depth = depth * per_open
            stats.nontriv(["deep", case["open"], depth, case["closed"], entry], {"opener": case["open"], "repeat": depth, "closed": case["closed"]})
            if not po.input_intact:
                raise Violation("input modified", key="input-modified")
            if po.tree:
                fl, nodes, d = lib.walk(po.tree)
                t = lib.take_text(lib.cJSON_PrintUnformatted(po.tree))
                lib.cJSON_Delete(po.tree)
                if fl:
                    raise Violation("deep tree has structural flags %d" % fl, key="structure")
                if t is None:
                    raise Violation("deep tree cannot be printed", key="print")
            if lib.ledger_live() != live:
                raise Violation("allocations left behind after parsing a deep shape", key="leak")

    def shrink_candidates(self, case):
        if case["kind"] != "sweep":
            return []
        jv = case["jv"]
        out = []
        if jv[0] in "AO":
            for i in range(len(jv[1])):
                out.append(dict(case, jv=[jv[0], jv[1][:i] + jv[1][i + 1:]]))
            for ch in jv[1]:
                out.append(dict(case, jv=ch if jv[0] == "A" else ch[1]))
        return out


PROP = C01()
