#!/usr/bin/env python3
"""seeded_eval.py <seeded-dir> <property> <check> [<check> ...] [--tier T]: confirm + run checks + write meta.json"""
import json
import os
import sys
sys.path.insert(0, os.path.dirname(os.path.abspath(__file__)))
import seeded


def _head():
    import subprocess
    try:
        return subprocess.run(["git", "-C", os.path.dirname(os.path.dirname(os.path.abspath(__file__))), "rev-parse", "--short", "HEAD"],
                              stdout=subprocess.PIPE, text=True).stdout.strip()
    except Exception:
        return "?"


HEAD = _head()


def main():
    d = sys.argv[1].rstrip("/")
    prop = sys.argv[2]
    args = sys.argv[3:]
    tier = "quick"
    if "--tier" in args:
        i = args.index("--tier")
        tier = args[i + 1]
        args = args[:i] + args[i + 2:]
    metap = os.path.join(d, "meta.json")
    meta = json.load(open(metap)) if os.path.isfile(metap) else {}
    if "confirmed" not in meta:
        c = seeded.confirm(d)
        meta["confirmed"] = {
            "patch_applies_to_repo_HEAD": c.get("patch_applies"),
            "existing_tests_pass_with_change": c.get("tests_pass"),
            "demo_exit_without_change": [c.get("demo_clean_san0"), c.get("demo_clean_san1")],
            "demo_exit_with_change": [c.get("demo_mut_san0"), c.get("demo_mut_san1")],
            "how": "tools/seeded.py confirm: scratch worktree of /repo HEAD; cmake -DENABLE_CJSON_UTILS=On + ctest (22 tests); demo.c built with gcc, plain and with -fsanitize=address,undefined",
        }
        for k, v in c.items():
            if "build" in k:
                meta["confirmed"][k] = v
    notes = os.path.join(d, "notes.md")
    meta["breaks_property"] = prop
    if os.path.isfile(notes) and "needs_to_manifest" not in meta:
        meta["needs_to_manifest"] = " ".join(open(notes).read().split())[:900]
    r = seeded.run_checks(d, args, tier)
    meta.setdefault("checks_run", {})
    for k, v in r.items():
        if isinstance(v, dict):
            prev = meta["checks_run"].get("%s/%s" % (k, tier))
            if isinstance(prev, dict) and prev.get("caught") != (v["rc"] == 1 and any("VIOLATION" in l for l in v["lines"])):
                # the outcome changed since an earlier evaluation (the checks were strengthened in between): keep the earlier one
                meta.setdefault("earlier_results", []).append(dict(prev, check="%s/%s" % (k, tier), superseded_at=HEAD))
            meta["checks_run"]["%s/%s" % (k, tier)] = {"exit": v["rc"], "wall_s": v["wall_s"], "caught": v["rc"] == 1 and any("VIOLATION" in l for l in v["lines"]), "message": (v["lines"] or [""])[0][:300]}
        else:
            meta["checks_run"]["error"] = v
    meta["caught_by"] = sorted(k for k, v in meta["checks_run"].items() if isinstance(v, dict) and v.get("caught"))
    json.dump(meta, open(metap, "w"), indent=1)
    print(d, "confirmed:", meta["confirmed"]["existing_tests_pass_with_change"], meta["confirmed"]["demo_exit_without_change"], meta["confirmed"]["demo_exit_with_change"],
          "| caught by:", meta["caught_by"], "| missed by:", sorted(k for k, v in meta["checks_run"].items() if isinstance(v, dict) and not v.get("caught")))


if __name__ == "__main__":
    main()
