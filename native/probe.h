/* Native probe layer shared by the ctypes shim, the libFuzzer targets and the
 * TSan driver.  See DESIGN.md section 1.1. */
#ifndef VERIF_PROBE_H
#define VERIF_PROBE_H

#include <stddef.h>
#include <stdint.h>
#include "cJSON.h"

/* A failure of the probe layer itself (out of memory, out of guard regions).  Never a verdict about the library: the
 * process ends with a code of its own (97), which the runner reports as a harness error (check exit status 2). */
#include <stdio.h>
#include <unistd.h>
#define harness_die(why) do { fprintf(stderr, "VERIF-HARNESS: %s\n", (why)); _exit(97); } while (0)

#ifdef __cplusplus
extern "C" {
#endif

/* ---------------- ledger ---------------- */
/* hook configurations */
#define LG_DEFAULT 0   /* cJSON_InitHooks(NULL)                         */
#define LG_BOTH 1      /* malloc_fn = ledger_malloc, free_fn = ledger_free */
#define LG_MALLOC_ONLY 2
#define LG_FREE_ONLY 3
#define LG_NULL_MEMBERS 4 /* hooks struct given, both members NULL */

typedef struct
{
    uint64_t hook_malloc, hook_free, hook_free_null;
    uint64_t wrap_malloc, wrap_realloc, wrap_calloc, wrap_free, wrap_free_null;
    uint64_t foreign_free;   /* pointer that is not a live ledger block (incl. double free) */
    uint64_t cross_free;     /* block from one side released through the other side while both hooks custom */
    uint64_t requests;       /* allocation requests since ledger_arm/ledger_reset_counters */
    uint64_t failed;         /* requests refused by fault injection */
    uint64_t live;           /* live blocks */
    uint64_t live_bytes;
    uint64_t serial;         /* serial of the most recent allocation */
} ledger_stats_t;

void *ledger_malloc(size_t n);
void ledger_free(void *p);
void ledger_install(int mode);
int ledger_mode(void);
void ledger_get(ledger_stats_t *out);
void ledger_reset_counters(void);
/* refuse request number k (1-based, counted from this call); 0 disarms */
void ledger_arm(uint64_t k);
uint64_t ledger_requests(void);
/* number of live blocks whose serial is > mark */
uint64_t ledger_live_since(uint64_t mark);
uint64_t ledger_serial(void);
uint64_t ledger_live(void);
/* 1 if p is a live ledger block */
int ledger_is_live(const void *p);
/* forget everything (used between cases after a violation was already recorded) */
void ledger_forget_all(void);
/* the real allocator, for harness-owned memory */
void *probe_malloc(size_t n);
void *probe_realloc(void *p, size_t n);
void probe_free(void *p);

/* ---------------- guard buffers ---------------- */
/* [p,p+n) readable, read-only; p+n is on a PROT_NONE page.  release with guard_release */
const unsigned char *guard_ro(const unsigned char *bytes, size_t n);
/* fill the dead stack below the caller with a byte value chosen by probe_set_stack_fill (0 = leave it alone) */
void probe_set_stack_fill(int byte);
void probe_stack_fill(void);
/* writable variant with a PROT_NONE page behind and canaries (or a PROT_NONE page) in front */
unsigned char *guard_rw(const unsigned char *bytes, size_t n);
/* 0 if canaries intact (or region not found) */
int guard_check(const void *p);
void guard_release(const void *p);
/* change protection of a guard_rw region to read-only / read-write */
void guard_protect(const void *p, int readonly);

/* ---------------- dumper / walker ---------------- */
#define WF_NEXT_CYCLE 1u      /* sibling chain does not terminate / node visited twice */
#define WF_PREV_MISMATCH 2u   /* n->next->prev != n */
#define WF_TAIL_MISMATCH 4u   /* first->prev != last */
#define WF_ROOT_SIBLINGS 8u   /* root has next or prev */
#define WF_NULL_VALUESTRING 16u /* String/Raw node without valuestring */
#define WF_NULL_KEY 32u       /* member of an object without key */
#define WF_BAD_TYPE 64u       /* type byte is not exactly one known bit */
#define WF_TOO_DEEP 128u      /* depth bound of the walker hit */
#define WF_LEAF_CHILD 256u    /* non-container with child */

typedef struct
{
    char *text;       /* canonical dump, zero-terminated, probe_malloc'ed */
    size_t length;
    unsigned flags;   /* WF_* */
    size_t nodes;
    size_t depth;
} dump_result_t;

/* follow_refs: list children of reference containers (only legal while the target lives) */
void tree_dump(const cJSON *root, int follow_refs, int check_root_links, dump_result_t *out);
void tree_dump_release(dump_result_t *r);
/* structural walk only */
unsigned tree_walk(const cJSON *root, int follow_refs, int check_root_links, size_t *nodes, size_t *depth);
/* collect owned pointers: nodes, owned valuestrings, owned keys. returns count, fills up to cap */
size_t tree_owned_ptrs(const cJSON *root, uintptr_t *out, size_t cap);
/* collect constant-key pointers */
size_t tree_const_keys(const cJSON *root, uintptr_t *out, size_t cap);

/* ---------------- dialect recogniser ---------------- */
#define RC_STRICT 0
#define RC_LENIENT 1
#define RC_INVALID 2
#define RC_UNDECIDED 3
typedef struct
{
    int cls;            /* classification of the first value (prefix) */
    size_t value_end;   /* offset just past the first complete value (valid unless INVALID) */
    size_t value_start; /* offset of the first byte of the value (after BOM/whitespace) */
    size_t bad_offset;  /* for INVALID: offset of the first offending byte (== n for truncation) */
    int max_depth;
} ref_result_t;
/* classify buffer [b,b+n): prefix grammar `[BOM] ws value`; nesting limit given */
void ref_classify(const unsigned char *b, size_t n, int nesting_limit, ref_result_t *out);

#ifdef __cplusplus
}
#endif
#endif
