"""C16 - JSON Patch application follows RFC 6902 and survives any patch document."""
import copy

from hypothesis import strategies as st

from .. import gens, model, printing, rfc, build
from ..core import Prop, Violation
from ..lib import flag_names
from .c15 import utils_documents, UKEYS, HUGE, EDGE_NUMBERS, other_number

OPNAMES = [b"add", b"remove", b"replace", b"test", b"copy", b"move"]


def S(b):
    return ["S", b]


def small_values():
    return st.one_of(st.just(["n"]), st.just(["t"]), st.just(["f"]), st.integers(-9, 9).map(lambda i: ["N", float(i) + 100.0]),
                     st.sampled_from(EDGE_NUMBERS).map(lambda d: ["N", d]),
                     st.sampled_from([b"v", b"", b"a/b"]).map(S),
                     st.just(["A", []]), st.just(["O", []]),
                     st.just(["A", [["N", 201.0], ["S", b"x"]]]), st.just(["O", [[b"n", ["N", 202.0]], [b"a/b", ["t"]]]]))


def jv_from_path(doc, path):
    return rfc.node_at(doc, path)


@st.composite
def conformance_case(draw):
    doc = draw(utils_documents(max_leaves=9, min_leaves=2, wide=False))
    # occasionally a wide array so that two-digit indices occur in paths
    if draw(gens.chance(8)):
        doc = ["O", [[b"w", ["A", [["N", float(i)] for i in range(draw(st.integers(11, 30)))]]], [b"d", doc]]]
    cur = copy.deepcopy(doc)
    ops = []
    nops = draw(st.integers(1, 6))
    classes = []
    for _ in range(nops):
        op, cls = draw(one_op(cur))
        if draw(gens.chance(7)):
            # members an operation does not define are ignored (RFC 6902 section 4): "from" on add/remove/replace/test, "value" on
            # remove/move/copy, unknown names, names in another case
            names = [k for k, _ in op[1]]
            extra = draw(st.lists(st.sampled_from([[b"from", ["N", 7.0]], [b"from", ["n"]], [b"from", ["A", []]], [b"from", S(b"/no/such/place")],
                                                   [b"value", ["N", 1.0]], [b"value", ["O", []]], [b"foo", S(b"bar")], [b"Op", S(b"remove")],
                                                   [b"PATH", S(b"/x")], [b"", ["t"]], [b"path ", S(b"")],
                                                   # names that differ from the defined ones in letter case only are undefined members too
                                                   [b"Value", ["N", 2.0]], [b"VALUE", S(b"other")], [b"From", S(b"/0")], [b"FROM", S(b"")],
                                                   [b"OP", S(b"test")], [b"Path", S(b"")], [b"oP", S(b"add")]]), min_size=1, max_size=3))
            extra = [e for e in extra if e[0] not in names]
            if extra:
                pos = draw(st.integers(0, len(op[1])))
                op = ["O", op[1][:pos] + extra + op[1][pos:]]
                cls = cls + "+extra_members"
        ops.append(op)
        classes.append(cls)
        try:
            cur = rfc.patch_apply(cur, ["A", [op]])
        except rfc.PatchError:
            break
    return {"kind": "conformance", "doc": doc, "patch": ["A", ops], "classes": classes}


@st.composite
def one_op(draw, cur):
    paths = list(rfc.all_paths(cur))
    nonroot = [p for p in paths if p]
    containers = [p for p in paths if rfc.node_at(cur, p)[0] in "AO"]

    def ptr(p):
        return rfc.pointer_of(cur, p)

    def add_target(exclude_under=None):
        """a location where a value can be added: (pointer bytes)"""
        cands = [c for c in containers if exclude_under is None or c[:len(exclude_under)] != exclude_under]
        if not cands or draw(gens.chance(12)):
            return b""
        c = cands[draw(st.integers(0, len(cands) - 1))]
        node = rfc.node_at(cur, c)
        if node[0] == "A":
            k = draw(st.integers(0, len(node[1]) + 1))
            last = b"-" if k == len(node[1]) + 1 else b"%d" % k
        else:
            if node[1] and draw(st.booleans()):
                last = node[1][draw(st.integers(0, len(node[1]) - 1))][0]
            else:
                last = draw(st.sampled_from(UKEYS + [b"new", b"x~y", b"p/q"]))
        return ptr(c) + b"/" + rfc.ptr_escape(last)

    kind = draw(st.sampled_from(["add", "add", "remove", "replace", "test", "copy", "move", "bad", "bad", "bad"]))
    val = draw(small_values())
    if kind == "add":
        return ["O", [[b"op", S(b"add")], [b"path", S(add_target())], [b"value", val]]], "add"
    if kind == "remove":
        if not nonroot:
            return ["O", [[b"op", S(b"remove")], [b"path", S(b"/nothing")]]], "missing_target"
        return ["O", [[b"op", S(b"remove")], [b"path", S(ptr(nonroot[draw(st.integers(0, len(nonroot) - 1))]))]]], "remove"
    if kind == "replace":
        p = paths[draw(st.integers(0, len(paths) - 1))]
        return ["O", [[b"path", S(ptr(p))], [b"op", S(b"replace")], [b"value", val]]], "replace"
    if kind == "test":
        p = paths[draw(st.integers(0, len(paths) - 1))]
        v = copy.deepcopy(rfc.node_at(cur, p))
        if v[0] == "O" and len(v[1]) > 1 and draw(st.booleans()):
            v = ["O", list(reversed(v[1]))]
        return ["O", [[b"op", S(b"test")], [b"path", S(ptr(p))], [b"value", v]]], "test_pass"
    if kind == "copy":
        p = paths[draw(st.integers(0, len(paths) - 1))]
        return ["O", [[b"op", S(b"copy")], [b"from", S(ptr(p))], [b"path", S(add_target())]]], "copy"
    if kind == "move":
        if not nonroot:
            return ["O", [[b"op", S(b"move")], [b"from", S(b"/nothing")], [b"path", S(b"/x")]]], "missing_target"
        p = nonroot[draw(st.integers(0, len(nonroot) - 1))]
        return ["O", [[b"op", S(b"move")], [b"from", S(ptr(p))], [b"path", S(add_target(exclude_under=p))]]], "move"
    # ---- failure classes of the statement
    bad = draw(st.sampled_from(["missing_member", "missing_index", "index_beyond", "dash_not_allowed", "test_fail", "no_op", "no_path", "no_value",
                                "no_from", "test_fail", "test_fail", "op_wrong_type", "path_wrong_type", "from_wrong_type", "move_into_child", "wrong_case_key",
                                "unknown_op", "through_scalar", "leading_zero_index", "wrong_case_op", "bad_index_syntax", "bad_index_syntax",
                                "move_same_missing"]))
    p = paths[draw(st.integers(0, len(paths) - 1))]
    opn = draw(st.sampled_from(OPNAMES))

    def full(opname, path, **kw):
        m = [[b"op", S(opname)], [b"path", S(path)]]
        if opname in (b"add", b"replace", b"test"):
            m.append([b"value", kw.get("value", val)])
        if opname in (b"copy", b"move"):
            m.append([b"from", S(kw.get("frm", ptr(p)))])
        return ["O", m]

    arrays = [c for c in containers if rfc.node_at(cur, c)[0] == "A"]
    objects = [c for c in containers if rfc.node_at(cur, c)[0] == "O"]
    if bad == "missing_member":
        base = ptr(objects[draw(st.integers(0, len(objects) - 1))]) if objects else b""
        o = draw(st.sampled_from([b"remove", b"replace", b"test", b"copy", b"move"]))
        if o in (b"copy", b"move"):
            return full(o, b"/zz", frm=base + b"/no such member"), bad
        return full(o, base + b"/no such member"), bad
    if bad == "bad_index_syntax":
        # tokens that C number parsers accept but RFC 6901 does not: sign, blanks, hex, exponent
        if not arrays:
            return full(b"remove", b"/0/+0"), "missing_member"
        a = arrays[draw(st.integers(0, len(arrays) - 1))]
        n = len(rfc.node_at(cur, a)[1])
        i = draw(st.integers(0, max(n - 1, 0)))
        tok = draw(st.sampled_from([b"+%d", b" %d", b"\t%d", b"-%d", b"%d ", b"0x%d", b"%de0", b"%d.0", b" 0%d", b"+0%d", b"%d\n", b"\n%d",
                                    # escapes in a token addressed to an ARRAY: the decoded token holds '/' or '~'
                                    b"%d~1", b"~1%d", b"x~1%d", b"%d~0", b"~0%d", b"~1", b"%d~1%d"])).replace(b"%d", b"%d" % i)
        o = draw(st.sampled_from(OPNAMES))
        loc = ptr(a) + b"/" + tok
        if o in (b"copy", b"move"):
            if draw(st.booleans()):
                return full(o, b"/zz", frm=loc), bad
            return full(o, loc, frm=ptr(p)), bad
        v = copy.deepcopy(rfc.node_at(cur, a)[1][i]) if n and o == b"test" else val
        return full(o, loc, value=v), bad
    if bad == "move_same_missing":
        # "from" and "path" are the same pointer, which does not exist
        cands = [b"/no such member", b"/zz/0"]
        for a in arrays[:3]:
            cands += [ptr(a) + b"/%d" % len(rfc.node_at(cur, a)[1]), ptr(a) + b"/-"]
        scal = [q for q in paths if rfc.node_at(cur, q)[0] not in "AO"]
        if scal:
            cands.append(ptr(scal[0]) + b"/x")
        loc = cands[draw(st.integers(0, len(cands) - 1))]
        return full(b"move", loc, frm=loc), bad
    if bad in ("missing_index", "index_beyond", "dash_not_allowed", "leading_zero_index"):
        if not arrays:
            return full(b"remove", b"/0/0/0"), "missing_index"
        a = arrays[draw(st.integers(0, len(arrays) - 1))]
        n = len(rfc.node_at(cur, a)[1])
        if bad == "missing_index":
            o = draw(st.sampled_from([b"remove", b"replace", b"test", b"copy", b"test", b"copy"]))
            idx = draw(st.sampled_from([n, n + 1, n + 2, n, n] + [h + k for h in HUGE for k in range(min(n, 2) + 1)]))
            loc = ptr(a) + b"/%d" % idx
            arr = rfc.node_at(cur, a)[1]
            alias = arr[idx % (2 ** 32)] if arr and (idx % (2 ** 32)) < len(arr) else (arr[0] if arr else ["n"])
            if draw(st.booleans()) and alias[0] in "AO" and alias[1]:
                # the huge index as a NON-final token: descend into what a truncated index would alias
                sub = b"0" if alias[0] == "A" else rfc.ptr_escape(alias[1][0][0])
                loc = loc + b"/" + sub
                alias = alias[1][0] if alias[0] == "A" else alias[1][0][1]
            if o == b"copy":
                return full(o, b"/zz", frm=loc), bad
            # a 'test' whose value equals the element that a truncated index would alias
            return full(o, loc, value=copy.deepcopy(alias)), bad
        if bad == "index_beyond":
            return full(b"add", ptr(a) + b"/%d" % (n + 1 + draw(st.integers(0, 3)))), bad
        if bad == "leading_zero_index":
            return full(draw(st.sampled_from([b"add", b"remove", b"replace", b"test"])), ptr(a) + b"/0%d" % draw(st.integers(0, max(n - 1, 0)))), bad
        o = draw(st.sampled_from([b"remove", b"replace", b"test", b"copy", b"move"]))
        if o in (b"copy", b"move"):
            return full(o, b"/zz", frm=ptr(a) + b"/-"), bad
        return full(o, ptr(a) + b"/-"), bad
    if bad == "test_fail":
        v = copy.deepcopy(rfc.node_at(cur, p))
        other = draw(small_values())
        nums = [n for n in model.walk_jv(v) if n[0] == "N"]
        extreme = [n for n in nums if n[1] != 0.0 and (abs(n[1]) < 1e-290 or abs(n[1]) > 1e290)]
        if nums and (extreme or draw(st.booleans())):
            # the expected value differs from the actual one in ONE number only, by a step of that number's own magnitude
            import random as _random
            rr = _random.Random(draw(st.integers(0, 2 ** 31)))
            other = copy.deepcopy(v)
            sites = [n for n in model.walk_jv(other) if n[0] == "N"]
            ext = [n for n in sites if n[1] != 0.0 and (abs(n[1]) < 1e-290 or abs(n[1]) > 1e290)]
            site = rr.choice(ext or sites)
            site[1] = other_number(site[1], rr)
        if model.eq_set(v, other, True):
            other = ["S", b"certainly different"]
        return full(b"test", ptr(p), value=other), bad
    if bad in ("no_op", "no_path", "no_value", "no_from"):
        o = full(opn if bad in ("no_op", "no_path") else (draw(st.sampled_from([b"add", b"replace", b"test"])) if bad == "no_value" else draw(st.sampled_from([b"copy", b"move"]))),
                 add_target() if opn in (b"add", b"copy") else ptr(p))
        drop = {"no_op": b"op", "no_path": b"path", "no_value": b"value", "no_from": b"from"}[bad]
        return ["O", [m for m in o[1] if m[0] != drop]], bad
    if bad in ("op_wrong_type", "path_wrong_type", "from_wrong_type"):
        wrong = draw(st.sampled_from([["N", 1.0], ["n"], ["t"], ["A", [S(b"add")]], ["O", []]]))
        o = full(opn if bad != "from_wrong_type" else draw(st.sampled_from([b"copy", b"move"])), ptr(p) if p else b"/k")
        name = {"op_wrong_type": b"op", "path_wrong_type": b"path", "from_wrong_type": b"from"}[bad]
        return ["O", [[k, (wrong if k == name else v)] for k, v in o[1]]], bad
    if bad == "move_into_child":
        inner = [c for c in containers if c]
        if not inner:
            return full(b"move", b"/a/b", frm=b"/a"), "missing_member"
        c = inner[draw(st.integers(0, len(inner) - 1))]
        node = rfc.node_at(cur, c)
        last = b"-" if node[0] == "A" else b"sub"
        return full(b"move", ptr(c) + b"/" + last, frm=ptr(c)), bad
    if bad == "wrong_case_key":
        cands = [q for q in nonroot if ptr(q) != ptr(q).swapcase()]
        if not cands:
            return full(b"remove", b"/NoSuchKey"), "missing_member"
        q = cands[draw(st.integers(0, len(cands) - 1))]
        flipped = ptr(q).swapcase()
        try:
            rfc.resolve_path(cur, flipped)
            return full(b"remove", b"/NoSuchKey"), "missing_member"
        except rfc.PointerError:
            pass
        return full(draw(st.sampled_from([b"remove", b"replace", b"test"])), flipped), bad
    if bad == "unknown_op":
        if draw(st.booleans()):
            return full(draw(st.sampled_from([b"", b"ad", b"delete", b"adds", b"tEst"])), ptr(p)), bad
        # an operation that is complete and would succeed if only its name were one of the six: the name is a neighbour of a real
        # one (a longer or shorter spelling, another letter case, blanks around it)
        base = draw(st.sampled_from([b"add", b"remove", b"replace", b"test", b"copy", b"move"]))
        how = draw(st.integers(0, 9))
        name = [base + b"s", base + b"d", base + b"ed", base + b" ", b" " + base, base[:-1], base.upper(), base.capitalize(), base + base, base + b"\t"][how]
        src = nonroot[draw(st.integers(0, len(nonroot) - 1))] if nonroot else []
        m = [[b"op", S(name)], [b"path", S(add_target(exclude_under=src if src else None) if base in (b"add", b"copy", b"move") else ptr(src))]]
        if base in (b"add", b"replace"):
            m.append([b"value", val])
        if base == b"test":
            m.append([b"value", copy.deepcopy(rfc.node_at(cur, src))])
        if base in (b"copy", b"move"):
            m.append([b"from", S(ptr(src))])
        return ["O", m], bad
    if bad == "wrong_case_op":
        o = full(opn, ptr(p) if p else b"/k")
        return ["O", [[(b"OP" if k == b"op" else k), v] for k, v in o[1]]], bad
    # through_scalar
    scal = [q for q in paths if rfc.node_at(cur, q)[0] not in "AO"]
    q = scal[draw(st.integers(0, len(scal) - 1))] if scal else []
    return full(draw(st.sampled_from([b"add", b"remove", b"replace", b"test"])), ptr(q) + b"/0"), bad


def robustness_patches():
    anyv = gens.shaped_documents(st.one_of(small_values(), st.sampled_from([b"add", b"remove", b"/a", b"", b"/0", b"/~", b"abc", b"/a~2b", b"/-",
                                                                             b"/18446744073709551617", b"//", b"/0/0"]).map(S)),
                                 st.sampled_from([b"op", b"path", b"value", b"from", b"OP", b"x", b""]), max_leaves=8)
    return anyv


class C16(Prop):
    ID = "C16"
    FUZZ_TARGETS = ["fz_patch"]
    RULE = ("(conformance) documents with distinct keys (Utils alphabet incl. '', '/', '~', '~0', '~1', digits, '-') and well-separated numbers; "
            "patches of 1-6 operations drawn against the EVOLVING reference document: add/remove/replace/test/copy/move at drawn valid "
            "locations (incl. root, '-', object overwrite, two-digit indices) and 18 failure classes (missing member/index, index beyond the "
            "end, '-' where not allowed, failed test, missing op/path/value/from, members of the wrong JSON type, move into own child, "
            "wrong-case key/op, unknown op, path through a scalar, leading-zero index); syntactically valid pointers only; plus documents 998..1500 levels deep with operations at the bottom. Oracle: status == 0 "
            "iff the RFC 6902 reference evaluator succeeds, and then the document equals the reference result (arrays ordered, objects as sets); "
            "always: document structurally sound, document + patch delete to an empty ledger; in a fifth of the object documents a member is a REFERENCE to a tree owned elsewhere, the patch copies it and edits the copy, and the owner's tree must stay as it was. (robustness) arbitrary JSON values as patch, "
            "near-patches with invalid pointers, and libFuzzer fz_patch (document text NUL patch text): no report, no leak, sound tree. "
            "non-trivial = >= 2 ops applied before the verdict, or a path needing ~0/~1, or a failure at op >= 2; distinct by case hash")
    ASSUMPTIONS = ["'remove' of the whole document is outside conformance (left open by the property)",
                   "keys distinct per object; pointers that are not syntactically valid are robustness-only"]
    REQUIRED_CLASSES = ["borrowed_member_copied", "conformance_success", "conformance_failure", "robustness", "escape_in_path", "fail_at_op>=2", "root_replaced", "deep_document", "extra_members"]

    def budget(self, tier):
        return {"workers": 14, "examples": 1400 if tier == "quick" else 20000}

    def fuzz_plan(self, tier):
        quick = tier == "quick"
        seeds = [b'\x00{"a":[1,2,3],"b":{"c":true}}\x00[{"op":"add","path":"/a/1","value":9},{"op":"remove","path":"/b/c"}]',
                 b'\x01{"a~b":1,"c/d":[{}]}\x00[{"op":"copy","from":"/c~1d/0","path":"/x"},{"op":"move","from":"/a~0b","path":"/c~1d/-"},{"op":"test","path":"/x","value":{}}]',
                 b'\x00[1,2]\x00[{"op":"replace","path":"","value":{"k":[]}},{"op":"test","path":"/k","value":[]}]',
                 b'\x01{"k":1}\x00[{"op":"move","from":7,"path":"/x"}]',
                 b'\x00[]\x00[{"op":"add","path":"/-","value":[1]},{"op":"add","path":"/0/-","value":2}]']
        return [{"target": "fz_patch", "procs": 4, "runs": 150000 if quick else 4000000, "max_len": 300 if quick else 2048, "timeout": 10,
                 "dict": build.REPO + "/fuzzing/json.dict", "corpus": [], "seeds": seeds, "empty_corpus_procs": 0}]

    def strategy(self, tier):
        rob = st.fixed_dictionaries({"kind": st.just("robustness"), "doc": utils_documents(max_leaves=8, wide=False), "patch": robustness_patches(),
                                     "cs": st.booleans()})
        near = conformance_case().flatmap(lambda c: st.tuples(st.integers(0, 10 ** 6), robustness_patches(), st.booleans()).map(
            lambda t: {"kind": "robustness", "doc": c["doc"], "patch": graft(c["patch"], t[0], t[1]), "cs": t[2]}))
        # documents nested as deep as (and deeper than) the parser allows, operations at the bottom
        deep = st.fixed_dictionaries({"kind": st.just("deep"), "depth": st.sampled_from([998, 999, 1000, 1001, 1002, 1500]),
                                      "shape": st.sampled_from(["O", "A", "OA", "AO", "OOA"]),
                                      "ops": st.lists(st.sampled_from(["add", "remove", "replace", "test", "test_fail", "copy_up", "move_up", "copy_down", "remove_missing"]),
                                                      min_size=1, max_size=4)})
        return gens.weighted((50, st.one_of(conformance_case(), conformance_case(), conformance_case(), rob, near)), (1, deep))

    def deep_case(self, case):
        d, shape = case["depth"], case["shape"]
        toks = []
        node = ["O", [[b"keep", ["N", 1.0]], [b"drop", ["t"]], [b"arr", ["A", [["N", 5.0], ["S", b"x"]]]]]]
        for i in range(d, 0, -1):
            if shape[i % len(shape)] == "A":
                node = ["A", [node]]
                toks.insert(0, b"0")
            else:
                node = ["O", [[b"n", node]]]
                toks.insert(0, b"n")
        if node[0] == "A":
            node = ["O", [[b"top", node]]]
            toks.insert(0, b"top")
        base = rfc.ptr_build(toks)
        mk = {"add": [[b"op", S(b"add")], [b"path", S(base + b"/new")], [b"value", ["A", [["N", 7.0]]]]],
              "remove": [[b"op", S(b"remove")], [b"path", S(base + b"/drop")]],
              "replace": [[b"op", S(b"replace")], [b"path", S(base + b"/keep")], [b"value", S(b"replaced")]],
              "test": [[b"op", S(b"test")], [b"path", S(base + b"/arr")], [b"value", ["A", [["N", 5.0], ["S", b"x"]]]]],
              "test_fail": [[b"op", S(b"test")], [b"path", S(base + b"/arr/0")], [b"value", ["N", 6.0]]],
              "copy_up": [[b"op", S(b"copy")], [b"from", S(base + b"/arr")], [b"path", S(b"/copied")]],
              "move_up": [[b"op", S(b"move")], [b"from", S(base + b"/arr/1")], [b"path", S(b"/moved")]],
              "copy_down": [[b"op", S(b"copy")], [b"from", S(b"/" + toks[0])], [b"path", S(b"/copy of everything")]],
              "remove_missing": [[b"op", S(b"remove")], [b"path", S(base + b"/no such member")]]}
        ops = [["O", mk[o]] for o in case["ops"]]
        return {"kind": "conformance", "doc": node, "patch": ["A", ops], "classes": list(case["ops"]), "deep": True}

    def run_case(self, lib, case, stats):
        if case["kind"] == "deep":
            stats.cls("deep_document")
            case = self.deep_case(case)
        doc, patch = case["doc"], case["patch"]
        import random
        rnd = random.Random(model.count_nodes(doc) * 7919 + model.count_nodes(patch))
        arena = printing.Arena(lib)
        borrowed = None
        own_doc = doc
        if case["kind"] == "conformance" and doc[0] == "O" and rnd.random() < 0.2 and all(k not in (b"borrowed", b"mine") for k, _ in doc[1]):
            # the document holds a member that is a REFERENCE to a value owned elsewhere; the patch copies it and then edits the copy
            # (never the reference): RFC 6902 4.5 makes the two locations independent values, and the owner's tree stays as it is
            # (member names in sorted order: "test" sorts the objects it compares in place, and sorting THROUGH a reference would be an
            # edit of the owner's list - outside what a holder of a reference may do)
            borrowed = [["O", [[b"list", ["A", [["t"]]]], [b"x", ["N", 1.0]]]], ["A", [["n"], ["S", b"s"], ["A", []]]]][rnd.randrange(2)]

            def mkop(name, path, frm=None, value=None):
                m = [[b"op", ["S", name]], [b"path", ["S", path]]]
                if frm is not None:
                    m.append([b"from", ["S", frm]])
                if value is not None:
                    m.append([b"value", value])
                return ["O", m]
            inner = (b"/mine/added", b"/mine/x", b"/mine/list/-") if borrowed[0] == "O" else (b"/mine/-", b"/mine/0", b"/mine/2/0")
            extra = [mkop(b"copy", b"/mine", frm=b"/borrowed"), mkop(b"add", inner[rnd.randrange(3)], value=["S", b"edit of the copy"]),
                     mkop(b"test", b"/borrowed", value=borrowed)]
            if rnd.random() < 0.3:
                extra.append(mkop(b"move", b"/moved", frm=b"/borrowed"))
            doc = ["O", doc[1] + [[b"borrowed", borrowed]]]
            patch = ["A", extra + patch[1]]
            case = dict(case, doc=doc, patch=patch, classes=["copy", "add", "test", "move"][:len(extra)] + list(case.get("classes", [])))
            stats.cls("borrowed_member_copied")
        if rnd.random() < 0.35:
            # ownership flags (constant keys, string references) must not matter to patch application
            dp = printing.build_flagged(lib, own_doc, arena, rnd)
            pp = printing.build_flagged(lib, patch, arena, rnd)
            stats.cls("ownership_flags_variant")
        else:
            dp = printing.build_tree(lib, own_doc)
            pp = printing.build_tree(lib, patch)
        owner = owner_dump = None
        if borrowed is not None:
            owner = printing.build_tree(lib, borrowed)
            owner_dump = lib.dump(owner)[0]
            lib.cJSON_AddItemReferenceToObject(dp, b"borrowed", owner)
        try:
            if case["kind"] == "robustness":
                f = lib.cJSONUtils_ApplyPatchesCaseSensitive if case.get("cs", True) else lib.cJSONUtils_ApplyPatches
                f(dp, pp)
                stats.cls("robustness")
                self.sound(lib, dp, pp, "arbitrary patch")
                return
            # known finding D15 region is excluded by construction (and counted)
            if any(_is_copy_move_to_root(op) for op in patch[1]):
                stats.cls("copy_or_move_to_root")
            if any("+extra_members" in c for c in case.get("classes", [])):
                stats.cls("extra_members")
            if any(_is_remove_root(op) for op in patch[1]):
                # left open by the property (the RFC does not define the result)
                stats.exclude("remove-whole-document")
                return
            try:
                want = rfc.patch_apply(doc, patch)
                err = None
            except rfc.PatchError as e:
                want, err = None, str(e)
            # how many operations the reference applies before the verdict
            applied = 0
            cur = doc
            for op in patch[1]:
                try:
                    cur = rfc.patch_apply(cur, ["A", [op]])
                    applied += 1
                except rfc.PatchError:
                    break
            status = lib.cJSONUtils_ApplyPatchesCaseSensitive(dp, pp)
            stats.inner += 1
            ptext = model.emit_text(patch)
            if (status == 0) != (want is not None):
                raise Violation("ApplyPatchesCaseSensitive returned %d but RFC 6902 evaluation %s; document %s patch %s" % (
                    status, "succeeds" if want is not None else "fails (%s)" % err, model.emit_text(doc)[:200], ptext[:300]),
                    key="verdict:%s" % ("accepts-invalid:" + (case["classes"][applied] if applied < len(case["classes"]) else "?") if want is None else "rejects-valid"))
            self.sound(lib, dp, pp, "conformance patch")
            if want is not None:
                got = lib.dump(dp)[0]
                gj = dump_to_jv(lib, dp)
                if not model.eq_set(gj, want, True):
                    raise Violation("patched document differs from the RFC 6902 result: got %s, want %s; document %s patch %s" % (
                        model.emit_text(gj)[:200], model.emit_text(want)[:200], model.emit_text(doc)[:200], ptext[:300]), key="result")
                stats.cls("conformance_success")
            else:
                stats.cls("conformance_failure")
                stats.cls("fail:" + (case["classes"][applied] if applied < len(case["classes"]) else "?"))
            esc = b"~0" in ptext or b"~1" in ptext
            if esc:
                stats.cls("escape_in_path")
            if want is None and applied >= 1:
                stats.cls("fail_at_op>=2")
            if any(_path_of(op) == b"" for op in patch[1][:applied]):
                stats.cls("root_replaced")
            if applied >= 2 or esc or (want is None and applied >= 1):
                stats.nontriv(case, {"doc": model.emit_text(doc), "patch": ptext, "reference": "ok" if want is not None else err})
            if owner is not None and lib.dump(owner)[0] != owner_dump:
                raise Violation("a value that the document only REFERS to was modified by a patch that copies it and edits the copy: %s -> %s; patch %s" % (
                    owner_dump[:160], lib.dump(owner)[0][:160], model.emit_text(patch)[:300]), key="result:borrowed-modified")
        finally:
            lib.cJSON_Delete(dp)
            lib.cJSON_Delete(pp)
            if owner is not None:
                lib.cJSON_Delete(owner)
            arena.close()
            if lib.ledger_live() != 0:
                n = lib.ledger_live()
                raise Violation("%d block(s) still allocated after deleting document and patch" % n, key="leak")
            s = lib.stats()
            if s.foreign_free or s.cross_free:
                raise Violation("foreign or double free", key="free")

    def sound(self, lib, dp, pp, what):
        fl, _, _ = lib.walk(dp, 1, 1)
        # a whole-document 'remove' leaves an item of invalid type: left open by the property
        if fl & ~64:
            raise Violation("document has structural defects %s after applying %s" % (flag_names(fl), what), key="structure:" + ",".join(flag_names(fl)))
        fl2, _, _ = lib.walk(pp, 1, 1)
        if fl2:
            raise Violation("patch tree has structural defects %s after application" % flag_names(fl2), key="structure-patch")
        if not fl:
            t = lib.take_text(lib.cJSON_PrintUnformatted(dp))
            if t is None:
                raise Violation("document cannot be printed after applying %s" % what, key="print")


def _member(op, name):
    if op[0] != "O":
        return None
    for k, v in op[1]:
        if k == name:
            return v
    return None


def _path_of(op):
    v = _member(op, b"path")
    return v[1] if v is not None and v[0] == "S" else None


def _is_copy_move_to_root(op):
    o = _member(op, b"op")
    return o is not None and o[0] == "S" and o[1] in (b"copy", b"move") and _path_of(op) == b""


def _is_remove_root(op):
    o = _member(op, b"op")
    return o is not None and o[0] == "S" and o[1] == b"remove" and _path_of(op) == b""


def graft(patch, where, junk):
    """replace one member value / one operation of a valid patch by an arbitrary value"""
    patch = copy.deepcopy(patch)
    ops = patch[1]
    if not ops:
        return junk
    i = where % len(ops)
    op = ops[i]
    k = (where // 7) % 5
    if k == 0 or op[0] != "O" or not op[1]:
        ops[i] = junk
    elif k == 1:
        op[1][(where // 3) % len(op[1])][1] = junk
    elif k == 2:
        del op[1][(where // 3) % len(op[1])]
    elif k == 3:
        m = op[1][(where // 3) % len(op[1])]
        if m[1][0] == "S":
            m[1] = ["S", m[1][1] + [b"~", b"/", b"~2", b"/-", b"/00", b"x"][(where // 11) % 6]]
        else:
            m[1] = junk
    else:
        op[1].append(list(op[1][(where // 3) % len(op[1])]))
    return patch


def dump_to_jv(lib, ptr):
    """library tree -> JV through the public accessors"""
    t = lib.shim_type(ptr) & 0xFF
    if t == 4:
        return ["n"]
    if t == 2:
        return ["t"]
    if t == 1:
        return ["f"]
    if t == 8:
        return ["N", lib.shim_valuedouble(ptr)]
    if t in (16, 128):
        import ctypes
        p = lib.shim_valuestring(ptr)
        return ["S" if t == 16 else "R", ctypes.string_at(p) if p else b""]
    kids = lib.children(ptr)
    if t == 32:
        return ["A", [dump_to_jv(lib, k) for k in kids]]
    if t == 64:
        import ctypes
        out = []
        for k in kids:
            kp = lib.shim_key(k)
            out.append([ctypes.string_at(kp) if kp else b"", dump_to_jv(lib, k)])
        return ["O", out]
    return ["?", t]


PROP = C16()
