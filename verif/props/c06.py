"""C06 - any sequence of tree edits behaves like the obvious list/map model."""
import array
import ctypes

from hypothesis import strategies as st

from .. import gens, model
from ..core import Prop, Violation
from ..treemodel import World
from ..treeops import Interp

OPS_WEIGHTED = (
    ["create_scalar"] * 5 + ["create_container"] * 3 + ["create_stringref", "create_containerref", "create_bulk", "create_bulk"] +
    ["add_array"] * 6 + ["add_object"] * 6 + ["add_ref"] * 2 + ["add_helper"] * 3 +
    ["insert"] * 5 + ["detach_ptr"] * 3 + ["detach_idx"] * 4 + ["detach_key"] * 4 +
    ["replace_ptr"] * 4 + ["replace_key"] * 4 + ["set_number", "set_string", "set_string", "set_bool"] +
    ["query"] * 5 + ["delete", "dup"]
)


def op_records(names, max_size):
    rec = st.tuples(st.sampled_from(names), st.integers(0, 4095), st.integers(0, 4095), st.integers(0, 4095), st.integers(0, 4095)).map(list)
    return st.one_of(st.lists(rec, min_size=1, max_size=12), st.lists(rec, min_size=max_size // 3, max_size=max_size),
                     st.lists(rec, min_size=max_size // 2, max_size=max_size))


def seed_trees(max_trees=3):
    leaves = st.one_of(st.just(["n"]), st.just(["t"]), st.just(["f"]),
                       st.sampled_from([0.0, 1.0, -1.5, 2147483648.0, 1e300]).map(lambda d: ["N", d]),
                       st.sampled_from([b"", b"x", b"some string"]).map(lambda s: ["S", s]))
    keys = st.sampled_from([b"a", b"A", b"b", b"k", b"K", b"key", b"", b"0", b"a/b"])
    return st.lists(gens.shaped_documents(leaves, keys, max_leaves=7, min_leaves=2), max_size=max_trees)


def run_program(lib, case, stats, check_every_step=True, final=None):
    w = World(lib, stats, check_every_step)
    it = Interp(w)
    try:
        for jv in case.get("seeds", []):
            w.new_root(w.build(jv))
        w.check_all("building the seed trees")
        it.run(case["ops"])
        if final:
            final(w, it)
        w.check_all("the last step")
        w.delete_all()
    finally:
        w.close()
    return w, it


class C06(Prop):
    ID = "C06"
    RULE = ("operation programs (<= 60 ops, operands late-bound modulo the live candidates) over 1-3 generated seed trees: all Create* "
            "incl. bulk constructors, string/array/object references, AddItemToArray/Object/ObjectCS, AddItemReferenceTo*, the nine "
            "Add<T>ToObject helpers, InsertItemInArray (index -1..size), Detach/Delete by pointer/index/key (both case modes), "
            "Replace by pointer/index/key, SetNumberValue/SetValuestring/SetBoolValue, GetArraySize/GetArrayItem/GetObjectItem[CaseSensitive]/"
            "HasObjectItem/cJSON_ArrayForEach, Duplicate, Delete; NULL arguments, out-of-range indices, missing keys, case-variant keys, "
            "aliasing keys and self-insertion included. After EVERY step every live tree's canonical dump (order, keys, values, flags, "
            "sibling links) must equal the model's and every return value must match. Plus histories of 4-14 edits/queries on arrays and objects of "
            "1000..100000 items (sizes and indices around 2^15 and 2^16) with the whole value sequence compared to a list model after every step. non-trivial = program with an edit on a container "
            "that had been modified before, followed by an append; distinct by program hash")
    ASSUMPTIONS = ["not generated (unspecified by the property): InsertItemInArray beyond the end, key-less items inside objects, "
                   "editing through reference nodes, moves that would make reference views cyclic"]
    REQUIRED_CLASSES = ["nontrivial_program", "self_insert", "reference", "const_key", "case_variant_lookup", "bulk", "big_container", "long_key", "packed_placement", "set_string_from_other_item"]

    def budget(self, tier):
        return {"workers": 14, "examples": 1200 if tier == "quick" else 12000}

    def strategy(self, tier):
        main = st.fixed_dictionaries({"seeds": seed_trees(), "ops": op_records(OPS_WEIGHTED, 60)})
        # edit histories on very long containers (index and size arithmetic beyond 2^15 / 2^16, no recursion over siblings)
        big = st.fixed_dictionaries({"kind": st.just("big"), "object": st.booleans(),
                                     "n": st.sampled_from([1000, 32767, 32768, 32769, 65535, 65536, 65537, 70000, 100000]),
                                     "ops": st.lists(st.tuples(st.integers(0, 11), st.integers(0, 4095), st.integers(0, 4095)).map(list), min_size=4, max_size=14)})
        return gens.weighted((199, main), (1, big))

    def run_big(self, lib, case, stats):
        n, is_obj = case["n"], case["object"]
        stats.cls("big_container")
        stats.nontriv(case, {"big_container": "object" if is_obj else "array", "n": n, "ops": case["ops"][:8]})
        if is_obj:
            cont = lib.cJSON_CreateObject()
            for i in range(n):
                lib.cJSON_AddNumberToObject(cont, b"k%d" % i, float(i))
        else:
            arr = (ctypes.c_int * n)(*range(n))
            cont = lib.cJSON_CreateIntArray(arr, n)
        mdl = list(range(n))
        nextv = [10 ** 6]

        def fresh():
            nextv[0] += 1
            return nextv[0]

        def index(sel, allow_end):
            size = len(mdl)
            pool = [0, 1, 2, size - 1, size - 2, size // 2, 255, 256, 32767, 32768, 65535, 65536, size if allow_end else size - 1, sel * 31 % max(size, 1)]
            i = pool[sel % len(pool)]
            return max(0, min(i, size if allow_end else size - 1))

        def name(v):
            return b"k%d" % v
        try:
            for opc, a, b in case["ops"]:
                size = len(mdl)
                if size == 0:
                    break
                stats.inner += 1
                if opc == 0:       # insert / add
                    i = index(a, True)
                    v = fresh()
                    item = lib.cJSON_CreateNumber(float(v))
                    if is_obj:
                        ok = lib.cJSON_AddItemToObject(cont, name(v), item)
                        i = size
                    else:
                        ok = lib.cJSON_InsertItemInArray(cont, i, item)
                    if not ok:
                        lib.cJSON_Delete(item)
                        raise Violation("insert at %d of %d refused" % (i, size), key="big-insert")
                    mdl.insert(i, v)
                elif opc == 1:     # refused insert / out-of-range accesses
                    item = lib.cJSON_CreateNumber(1.0)
                    bad = lib.cJSON_InsertItemInArray(cont, -1, item)
                    lib.cJSON_Delete(item) if not bad else None
                    if bad:
                        raise Violation("insert at index -1 accepted", key="big-insert")
                    for j in (size, size + 1, -1, -2 ** 31, 2 ** 31 - 1):
                        if lib.cJSON_GetArrayItem(cont, j):
                            raise Violation("GetArrayItem(%d) of %d items returned an item" % (j, size), key="big-get")
                        if lib.cJSON_DetachItemFromArray(cont, j):
                            raise Violation("DetachItemFromArray(%d) of %d items returned an item" % (j, size), key="big-detach")
                elif opc in (2, 3):  # detach by index / by pointer
                    i = index(a, False)
                    if opc == 2:
                        got = lib.cJSON_DetachItemFromArray(cont, i)
                    else:
                        got = lib.cJSON_DetachItemViaPointer(cont, lib.cJSON_GetArrayItem(cont, i))
                    if not got or lib.shim_valueint(got) != mdl[i] or lib.shim_next(got) or lib.shim_prev(got):
                        raise Violation("detach at %d of %d returned %s" % (i, size, "nothing" if not got else "the wrong item or an item with sibling links"), key="big-detach")
                    lib.cJSON_Delete(got)
                    del mdl[i]
                elif opc == 4:     # delete by index
                    i = index(a, False)
                    lib.cJSON_DeleteItemFromArray(cont, i)
                    del mdl[i]
                elif opc in (5, 6):  # replace by index / pointer
                    i = index(a, False)
                    v = fresh()
                    item = lib.cJSON_CreateNumber(float(v))
                    if is_obj:
                        ok = lib.cJSON_ReplaceItemInObjectCaseSensitive(cont, name(mdl[i]), item)
                        if ok:
                            # the new member is named by the key that was passed: rename it in the model's terms
                            lib.cJSON_Delete(lib.cJSON_DetachItemFromArray(cont, i))
                            item = lib.cJSON_CreateNumber(float(v))
                            lib.cJSON_AddItemToObject(cont, name(v), item)
                            del mdl[i]
                            mdl.append(v)
                            continue
                    elif opc == 5:
                        ok = lib.cJSON_ReplaceItemInArray(cont, i, item)
                    else:
                        ok = lib.cJSON_ReplaceItemViaPointer(cont, lib.cJSON_GetArrayItem(cont, i), item)
                    if not ok:
                        raise Violation("replace at %d of %d refused" % (i, size), key="big-replace")
                    mdl[i] = v
                elif opc == 7:     # queries
                    if lib.cJSON_GetArraySize(cont) != size:
                        raise Violation("GetArraySize %d, model %d" % (lib.cJSON_GetArraySize(cont), size), key="big-size")
                    for sel in (a, b, a + b, 3, 7, 8, 9, 10, 11):
                        i = index(sel, False)
                        it = lib.cJSON_GetArrayItem(cont, i)
                        if not it or lib.shim_valueint(it) != mdl[i]:
                            raise Violation("GetArrayItem(%d) of %d gives %s, model %d" % (i, size, lib.shim_valueint(it) if it else None, mdl[i]), key="big-get")
                    if lib.shim_array_foreach_count(cont, None, 0) != size:
                        raise Violation("cJSON_ArrayForEach visits a different number of items than the model holds", key="big-foreach")
                elif opc in (8, 9) and is_obj:   # key lookups
                    i = index(a, False)
                    k = name(mdl[i])
                    it = lib.cJSON_GetObjectItemCaseSensitive(cont, k) if opc == 8 else lib.cJSON_GetObjectItem(cont, k.upper())
                    if not it or lib.shim_valueint(it) != mdl[i]:
                        raise Violation("key lookup %r in an object of %d members fails" % (k, size), key="big-key")
                    if lib.cJSON_GetObjectItemCaseSensitive(cont, k.upper()) or lib.cJSON_HasObjectItem(cont, b"k-1"):
                        raise Violation("lookup of a missing key finds a member", key="big-key")
                elif opc == 10 and is_obj:       # detach / delete by key
                    i = index(a, False)
                    k = name(mdl[i])
                    got = lib.cJSON_DetachItemFromObjectCaseSensitive(cont, k) if b & 1 else lib.cJSON_DetachItemFromObject(cont, k.upper())
                    if not got or lib.shim_valueint(got) != mdl[i]:
                        raise Violation("detach by key %r in an object of %d members fails" % (k, size), key="big-key")
                    lib.cJSON_Delete(got)
                    del mdl[i]
                else:              # append
                    v = fresh()
                    if is_obj:
                        ok = lib.cJSON_AddNumberToObject(cont, name(v), float(v))
                    else:
                        ok = lib.cJSON_AddItemToArray(cont, lib.cJSON_CreateNumber(float(v)))
                    if not ok:
                        raise Violation("append to %d items refused" % size, key="big-append")
                    mdl.append(v)
                # after every step: the whole sequence, in one native read
                buf = (ctypes.c_int * (len(mdl) + 16))()
                got_n = lib.shim_array_ints(cont, buf, len(mdl) + 16)
                if got_n != len(mdl) or ctypes.string_at(buf, 4 * got_n) != array.array("i", mdl).tobytes():
                    where = next((j for j in range(min(got_n, len(mdl))) if buf[j] != mdl[j]), min(got_n, len(mdl)))
                    raise Violation("after op %d on a container of %d items: holds %d items, model %d; first difference at position %d" % (
                        opc, size, got_n, len(mdl), where), key="big-sequence")
            fl, _, _ = lib.walk(cont, 1, 1)
            if fl:
                raise Violation("long container has structural defects %d after the history" % fl, key="big-structure")
            if is_obj and lib.shim_members_named_by_value(cont) != -1:
                raise Violation("a member of the long object lost or changed its key (position %d)" % lib.shim_members_named_by_value(cont), key="big-key")
        finally:
            lib.cJSON_Delete(cont)
        if lib.ledger_live() != 0:
            raise Violation("blocks still allocated after deleting a long container", key="leak")

    def run_case(self, lib, case, stats):
        if case.get("kind") == "big":
            return self.run_big(lib, case, stats)
        # a quarter of the programs run under packed placement: blocks lie directly behind one another (see native/ledger.c)
        from ..core import h64
        packed = h64(case) % 4 == 0
        lib.ledger_set_packed(1 if packed else 0)
        try:
            w, it = run_program(lib, case, stats)
        finally:
            lib.ledger_set_packed(0)
        if packed:
            stats.cls("packed_placement")
        stats.inner += w.steps
        for f in it.feat:
            stats.cls(f)
        if "edit_on_modified_container" in it.feat and "append_after_edit" in it.feat:
            stats.cls("nontrivial_program")
            stats.nontriv(case, {"ops": [d for d in it.transcript if d != "skip"][:40]})
        if lib.ledger_live() != 0:
            raise Violation("blocks still allocated after deleting every root", key="leak")
        s = lib.stats()
        if s.foreign_free or s.cross_free:
            raise Violation("foreign or double free during the program", key="free")

    def shrink_candidates(self, case):
        ops = case["ops"]
        if case.get("kind") == "big":
            return [dict(case, ops=ops[:i] + ops[i + 1:]) for i in range(len(ops))] + [dict(case, n=1000)]
        out = []
        for i in range(len(ops)):
            out.append(dict(case, ops=ops[:i] + ops[i + 1:]))
        if case.get("seeds"):
            for i in range(len(case["seeds"])):
                out.append(dict(case, seeds=case["seeds"][:i] + case["seeds"][i + 1:]))
        return out[:60]


PROP = C06()
