#!/bin/sh
# Configure, build and run the repository's own test-suite in a scratch build directory
# (guard OFF: no verification define is passed).  Usage: baseline.sh [utils]
#   without argument: the 19 baseline tests (ENABLE_CJSON_UTILS off, as in BASELINE.json)
#   "utils": additionally builds the Utils tests (22 tests)
set -e
REPO="${VERIF_REPO:-/repo}"
HERE="$(cd "$(dirname "$0")/.." && pwd)"
B="$HERE/build/baseline.$$"
rm -rf "$B"; mkdir -p "$B"
trap 'rm -rf "$B"; rmdir "$HERE/build" 2>/dev/null || true' EXIT
UT=Off
[ "$1" = "utils" ] && UT=On
cmake -G Ninja -S "$REPO" -B "$B" -DCMAKE_BUILD_TYPE=RelWithDebInfo -DENABLE_CJSON_UTILS=$UT >"$B/configure.log" 2>&1 || { cat "$B/configure.log"; exit 1; }
cmake --build "$B" >"$B/build.log" 2>&1 || { tail -50 "$B/build.log"; exit 1; }
ctest --test-dir "$B" -j8 --timeout 900
