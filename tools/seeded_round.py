#!/usr/bin/env python3
"""seeded_round.py <suffix> [<suffix> ...]: seeded_eval (confirm + owning check) for every seeded/<Cnn>-<suffix>/"""
import os
import subprocess
import sys

ROOT = os.path.dirname(os.path.dirname(os.path.abspath(__file__)))


def main():
    suf = set(sys.argv[1:])
    for d in sorted(os.listdir(os.path.join(ROOT, "seeded"))):
        p, k = d.split("-")
        if k not in suf:
            continue
        r = subprocess.run([sys.executable, os.path.join(ROOT, "tools", "seeded_eval.py"), os.path.join("seeded", d), p, p], cwd=ROOT,
                           stdout=subprocess.PIPE, stderr=subprocess.STDOUT, text=True)
        print("\n".join(l for l in r.stdout.splitlines() if not l.startswith("WARNING"))[-600:], flush=True)
    print("ROUND-DONE", flush=True)


if __name__ == "__main__":
    main()
