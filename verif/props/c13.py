"""C13 - Minify keeps the JSON value, shrinks in place and stays in its buffer."""
import ctypes
import random

from hypothesis import strategies as st

from .. import gens, model, build
from ..core import Prop, Violation

SPECIAL = [0x22, 0x5C, 0x2F, 0x2A, 0x20, 0x61, 0x0A, 0x09, 0x62]


def tokens_of(jv, rnd, style):
    out = []
    model._emit(out, jv, rnd, style, 0.0)
    return [p for p in out if p]


# multi-byte material for comment bodies: other scripts' line terminators (U+2028, U+2029, NEL), NBSP, BOM, form feed, vertical tab,
# DEL, a 4-byte character, stray continuation bytes - none of them ends a comment or is a blank
ODD = [b"\xe2\x80\xa8", b"\xe2\x80\xa9", b"\xc2\x85", b"\xc2\xa0", b"\xef\xbb\xbf", b"\x0c", b"\x0b", b"\x7f", b"\xf0\x9f\x98\x80", b"\x80", b"\xff", b"\x01", b"\xc3\xa9"]


def odd_body(rnd, alphabet, n, forbidden):
    out = b""
    for _ in range(n):
        out += rnd.choice(ODD) if rnd.random() < 0.25 else bytes([rnd.choice(alphabet)])
    for f in forbidden:
        out = out.replace(f, b"")
    return out


def gap(rnd, final=False):
    """a run of blanks and comments"""
    items = []
    for _ in range(rnd.choice([0, 0, 1, 1, 2, 3])):
        k = rnd.random()
        if k < 0.45:
            items.append(bytes(rnd.choice(b" \t\r\n") for _ in range(rnd.randint(1, 3))))
        elif k < 0.72:
            body = bytes(rnd.choice(b'ab "\\/*\t\r{}[]:,') for _ in range(rnd.randint(0, 8)))
            if rnd.random() < 0.3:
                body = odd_body(rnd, b'ab "\\/*\t\r{}[]:,1', rnd.randint(1, 10), [b"\n"])
            # a line comment ends at LF (a lone CR does not end it); CRLF endings occur too
            items.append(b"//" + body + rnd.choice([b"\n", b"\n", b"\r\n"]))
        else:
            body = bytes(rnd.choice(b'ab "\\/*\n{}[]:,') for _ in range(rnd.randint(0, 8)))
            if rnd.random() < 0.25:
                body = odd_body(rnd, b'ab "\\/*\n{}[]:,1', rnd.randint(1, 10), [])
            if rnd.random() < 0.3:
                # runs of stars next to the delimiters: /***/, /** doc **/
                body = b"*" * rnd.randint(0, 3) + body + b"*" * rnd.randint(0, 4)
            # the body must not contain the closer; it may well end in stars (the comment ends at the FIRST "*/")
            while b"*/" in body:
                body = body.replace(b"*/", b"* /")
            items.append(b"/*" + body + b"*/")
    if final and rnd.random() < 0.2:
        items.append(rnd.choice([b"// trailing comment without newline", b"// ends in CR\r", b"//", b"//\r"]))
    return b"".join(items)


class C13(Prop):
    ID = "C13"
    FUZZ_TARGETS = ["fz_minify"]
    RULE = ("(value) valid documents emitted as token sequences (strings dense in escaped quotes, escaped backslashes - also as the last "
            "character -, '/', '*', blanks) with, between any two tokens, drawn runs of SP/HT/CR/LF, //...LF comments and /*...*/ comments "
            "(comment bodies contain quotes, backslashes and comment openers); oracle: minified buffer == concatenation of the tokens byte for "
            "byte, parses to the expected value, minify(minify(x)) == minify(x), terminator within the original extent, guard page and "
            "canaries untouched. (safety) arbitrary zero-terminated byte strings (Hypothesis and libFuzzer fz_minify) in a buffer whose "
            "terminator is the last accessible byte. non-trivial = text with >= 1 comment and >= 1 string containing a backslash followed "
            "by >= 1 further string token; fuzz inputs: contain a quote and a slash or backslash; distinct by text hash")
    ASSUMPTIONS = ["a // comment that is not closed by LF before the terminator and an unterminated /* are treated as running to the end of the text"]
    REQUIRED_CLASSES = ["nontrivial_text", "string_ending_in_backslash", "block_comment", "line_comment", "safety_bytes", "buffer_reused", "nesting>=256"]

    def budget(self, tier):
        return {"workers": 10, "examples": 1500 if tier == "quick" else 30000}

    def fuzz_plan(self, tier):
        quick = tier == "quick"
        seeds = [b'{ "a" : [1, 2 , 3] , /* c */ "b" : "x y" } // end', b'"\\\\" ', b'/* open', b'{"a\\\\": 1, "b c": "x y"}', b'"\\"', b'// x\n[1]',
                 b'["/*", "//", "*/"]', b'"unterminated \\', b' [ "a\\"b" , "\\\\\\"" ] ', b"/", b"/*/", b'{"k":"v"}/']
        return [{"target": "fz_minify", "procs": 6, "runs": 400000 if quick else 8000000, "max_len": 256 if quick else 2048, "timeout": 10,
                 "dict": None, "corpus": [build.REPO + "/tests/inputs"], "seeds": seeds, "empty_corpus_procs": 1}]

    def strategy(self, tier):
        strings = st.one_of(st.lists(st.sampled_from(SPECIAL), max_size=8).map(bytes), gens.utf8_strings(6),
                            st.lists(st.sampled_from(SPECIAL), min_size=1, max_size=5).map(lambda l: bytes(l) + b"\\"))
        leaves = gens.scalars_text(strings=strings)
        keys = st.one_of(st.lists(st.sampled_from(SPECIAL), max_size=5).map(bytes), gens.ascii_keys(3))
        docs = st.one_of(gens.shaped_documents(leaves, keys, max_leaves=10, min_leaves=3), gens.shaped_documents(leaves, keys, max_leaves=4))
        # nesting up to the parser's limit (a valid text): whatever Minify counts, it must not run out of counter
        deepdocs = st.tuples(st.sampled_from(["[", "{", "[{", "{[", "{{["]), st.sampled_from([100, 127, 128, 129, 255, 256, 257, 300, 511, 512, 513, 999, 1000]), leaves).map(
            lambda t: model.expand(["D", t[0], t[1], t[2]]))
        docs = gens.weighted((30, docs), (1, deepdocs))
        value = st.fixed_dictionaries({"kind": st.just("value"), "jv": docs, "rseed": st.integers(0, 2 ** 31),
                                       "style": st.sampled_from([None, "short", "short", "raw"])})
        safety = st.fixed_dictionaries({"kind": st.just("bytes"), "data": st.one_of(
            st.lists(st.sampled_from(list(b'"\\/* \n\t[]{}:,a1')), max_size=40).map(bytes),
            st.lists(st.integers(1, 255), max_size=40).map(bytes))})
        return st.one_of(value, value, value, safety)

    def minify(self, lib, text):
        """runs cJSON_Minify on text+NUL with the terminator as last accessible byte; returns result bytes"""
        n = len(text)
        buf = lib.guard_rw(text + b"\x00", n + 1)
        try:
            lib.cJSON_Minify(buf)
            if lib.guard_check(buf) != 0:
                raise Violation("Minify wrote before its buffer", key="oob-write")
            raw = ctypes.string_at(buf, n + 1)
        finally:
            lib.guard_release(buf)
        z = raw.find(b"\x00")
        if z < 0:
            raise Violation("result not terminated within the original extent: %r" % raw[:80], key="unterminated")
        return raw[:z]

    def run_case(self, lib, case, stats):
        if case["kind"] == "bytes":
            data = case["data"]
            data = data[:data.find(b"\x00")] if b"\x00" in data else data
            out = self.minify(lib, data)
            stats.cls("safety_bytes")
            if len(out) > len(data):
                raise Violation("result longer than the input", key="longer")
            return
        rnd = random.Random(case["rseed"])
        jv = case["jv"]
        toks = tokens_of(jv, rnd, case["style"])
        pieces = [gap(rnd)]
        for i, t in enumerate(toks):
            pieces.append(t)
            pieces.append(gap(rnd, final=(i == len(toks) - 1)))
        text = b"".join(pieces)
        want = b"".join(toks)
        strs = [t for t in toks if t[:1] == b'"']
        has_comment = b"//" in b"".join(pieces[::2]) or b"/*" in b"".join(pieces[::2])
        if b"/*" in b"".join(pieces[::2]):
            stats.cls("block_comment")
        if b"//" in b"".join(pieces[::2]):
            stats.cls("line_comment")
        if model.depth_of(jv) >= 256:
            stats.cls("nesting>=256")
        if any(t.endswith(b'\\\\"') for t in strs):
            stats.cls("string_ending_in_backslash")
        idx = [i for i, t in enumerate(strs) if b"\\" in t]
        if has_comment and idx and idx[0] < len(strs) - 1:
            stats.cls("nontrivial_text")
            stats.nontriv(text, {"text": text, "minified": want})
        out = self.minify(lib, text)
        stats.inner += 1
        if out != want:
            raise Violation("minified text differs from the concatenation of the tokens: got %r, want %r (input %r)" % (out[:160], want[:160], text[:200]),
                            key="value")
        po = lib.parse(2, out, 0, 0, 0)
        if not po.tree:
            raise Violation("minified text does not parse: %r" % out[:160], key="value")
        got = lib.dump(po.tree)[0]
        lib.cJSON_Delete(po.tree)
        if got != model.expected_dump(jv):
            raise Violation("minified text parses to a different value", key="value")
        again = self.minify(lib, out)
        if again != out:
            raise Violation("minifying twice differs from minifying once: %r vs %r" % (again[:120], out[:120]), key="idempotence")
        # history in ONE buffer: the text is minified, then a different un-minified text of exactly the result's length is stored
        # at the same address and minified (whatever a call remembers about "the buffer it has just produced" is wrong now)
        if len(want) >= 4 and len(text) > len(want):
            filler = [b"[]", b"0", b'""', b"{}", b"[1]", b'{"a":1}', b"true"][len(want) % 7]
            if len(filler) < len(want):
                t2 = b" " * (len(want) - len(filler)) + filler
                assert len(t2) == len(want)
                buf = lib.guard_rw(text + b"\x00", len(text) + 1)
                try:
                    lib.cJSON_Minify(buf)
                    first = ctypes.string_at(buf)
                    ctypes.memmove(buf, t2 + b"\x00", len(t2) + 1)
                    lib.cJSON_Minify(buf)
                    second = ctypes.string_at(buf)
                finally:
                    lib.guard_release(buf)
                stats.cls("buffer_reused")
                if first != want or second != filler:
                    raise Violation("a buffer minified to %r, then refilled with %r (same address, same length as that result) minifies to %r, not %r" % (
                        first[:80], t2[:80], second[:80], filler), key="reuse")
        if lib.ledger_live() != 0:
            raise Violation("Minify allocated memory", key="leak")


PROP = C13()
