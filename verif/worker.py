"""Worker process: runs one property's Hypothesis search (or replays cases) against libshim.so.

Started by runner.py with the ASan runtime preloaded.  Exit codes:
  0  finished, result file written (which may contain a failure)
  3  harness error (Python exception that is not a Violation)
  86 sanitizer abort (set through ASAN_OPTIONS/UBSAN_OPTIONS)
"""
import argparse
import importlib
import json
import os
import sys
import time
import traceback

from . import core
from .core import Violation
from .lib import Lib


def load_prop(pid):
    mod = importlib.import_module("verif.props." + pid.lower())
    return mod.PROP


class LastCase:
    def __init__(self, path):
        self.fd = os.open(path, os.O_WRONLY | os.O_CREAT | os.O_TRUNC, 0o644) if path else None

    def write(self, case):
        if self.fd is None:
            return
        data = core.dumps(case).encode("utf-8")
        os.ftruncate(self.fd, 0)
        os.pwrite(self.fd, data, 0)


def reset_lib(lib, prop):
    lib.ledger_install(0)
    lib.ledger_forget_all()
    lib.ledger_reset_counters()
    lib.ledger_install(prop.HOOK_MODE)


def run_one(lib, prop, case, stats):
    """runs a case from a clean allocator state; raises Violation"""
    try:
        # ambient state inherited from "earlier unrelated calls": errno (0, ERANGE, EINVAL, EDOM), a function of the case
        import ctypes
        ctypes.set_errno((0, 34, 22, 33)[core.h64(case) & 3])
        # ... and the contents of dead stack slots below the harness' parse calls (untouched, or filled with '7', '1', 'e')
        lib.probe_set_stack_fill((0, 0x37, 0x31, 0x65)[(core.h64(case) >> 2) & 3])
        prop.run_case(lib, case, stats)
    except Violation:
        reset_lib(lib, prop)
        raise


def main():
    ap = argparse.ArgumentParser()
    ap.add_argument("--prop", required=True)
    ap.add_argument("--lib", required=True)
    ap.add_argument("--tier", default="quick")
    ap.add_argument("--seed", type=int, default=0)
    ap.add_argument("--examples", type=int, default=100)
    ap.add_argument("--out", required=True)
    ap.add_argument("--lastcase", default=None)
    ap.add_argument("--replay", action="append", default=[])
    ap.add_argument("--index", type=int, default=0)
    ap.add_argument("--nworkers", type=int, default=1)
    args = ap.parse_args()

    prop = load_prop(args.prop)
    lib = Lib(args.lib)
    prop.worker_index = args.index
    prop.tier = args.tier
    reset_lib(lib, prop)
    stats = core.Stats()
    last = LastCase(args.lastcase)
    result = {"failure": None, "replayed": [], "harness_error": None}
    t0 = time.time()

    def finish(code):
        result["stats"] = stats.to_json()
        result["wall_s"] = time.time() - t0
        with open(args.out, "w") as f:
            json.dump(result, f)
        sys.stdout.flush()
        os._exit(code)

    if args.replay:
        for path in args.replay:
            with open(path) as f:
                doc = core.loads(f.read())
            case = doc["case"]
            last.write(case)
            try:
                stats.evaluations += 1
                run_one(lib, prop, case, stats)
                result["replayed"].append({"path": path, "failed": False})
            except Violation as v:
                result["replayed"].append({"path": path, "failed": True, "msg": v.msg, "key": v.key})
            except Exception:
                result["harness_error"] = traceback.format_exc()
                finish(3)
        finish(0)

    prop.last_write = last.write

    from hypothesis import given, settings, seed, HealthCheck, Phase, Verbosity

    # ---- cold-start probes: the first calls a process ever makes.  State the library sets up lazily (lookup tables, caches,
    # self-tuned sizes) is still untouched then; thousands of cases in one process would only ever see it warm.  A few dozen
    # generated cases are therefore each run in a forked child of this still-cold process.
    cold_cases = []
    ncold = int(os.environ.get("VERIF_COLD", "24")) if getattr(prop, "COLD_PROBES", True) else 0
    if ncold:
        @seed(args.seed ^ 0x5EED)
        @settings(max_examples=ncold, database=None, deadline=None, derandomize=False, suppress_health_check=list(HealthCheck),
                  phases=[Phase.generate], verbosity=Verbosity.quiet)
        @given(prop.strategy(args.tier))
        def collect(case):
            cold_cases.append(case)
        try:
            collect()
        except Exception:
            result["harness_error"] = traceback.format_exc()
            finish(3)
    for case in cold_cases:
        last.write(case)
        rfd, wfd = os.pipe()
        pid = os.fork()
        if pid == 0:
            os.close(rfd)
            code = 0
            try:
                import ctypes
                ctypes.CDLL(None).prctl(1, 9)      # PR_SET_PDEATHSIG = SIGKILL: never outlive the worker
            except Exception:
                pass
            try:
                run_one(lib, prop, case, core.Stats())
            except Violation as v:
                os.write(wfd, json.dumps({"msg": v.msg, "key": v.key}).encode())
                code = 7
            except BaseException:
                os.write(wfd, traceback.format_exc().encode()[-4000:])
                code = 3
            os._exit(code)
        os.close(wfd)
        # the child may spin forever (termination is part of the properties): wait with a limit
        limit = float(os.environ.get("VERIF_HANG_S", "150"))
        t_start = time.time()
        status = None
        while True:
            done, st_ = os.waitpid(pid, os.WNOHANG)
            if done:
                status = st_
                break
            if time.time() - t_start > limit:
                os.kill(pid, 9)
                os.waitpid(pid, 0)
                os.close(rfd)
                result["failure"] = {"case": core.enc(case), "msg": "(first call in a fresh process) the case did not finish within %d s (a library call does not terminate)" % limit,
                                     "key": "hang", "detail": None}
                finish(0)
            time.sleep(0.002)
        data = b""
        while True:
            chunk = os.read(rfd, 65536)
            if not chunk:
                break
            data += chunk
        os.close(rfd)
        stats.evaluations += 1
        stats.cls("cold_start_probe")
        if os.WIFEXITED(status) and os.WEXITSTATUS(status) == 0:
            continue
        if os.WIFEXITED(status) and os.WEXITSTATUS(status) == 7:
            v = json.loads(data.decode() or "{}")
            result["failure"] = {"case": core.enc(case), "msg": "(first call in a fresh process) " + v.get("msg", ""), "key": v.get("key"), "detail": None}
            finish(0)
        if os.WIFEXITED(status) and os.WEXITSTATUS(status) == 3:
            result["harness_error"] = data.decode(errors="replace")
            finish(3)
        # sanitizer abort or signal in the child: die the same way, the runner takes the last case as the crash candidate
        sys.stderr.write("cold-start probe died: status %d\n" % status)
        sys.stderr.flush()
        os._exit(os.WEXITSTATUS(status) if os.WIFEXITED(status) else 86)

    try:
        prop.prelude(lib, stats, args.index, args.nworkers, args.tier)
    except Violation as v:
        reset_lib(lib, prop)
        case = (v.detail or {}).get("case")
        result["failure"] = {"case": core.enc(case), "msg": v.msg, "key": v.key, "detail": None}
        finish(0)
    except Exception:
        result["harness_error"] = traceback.format_exc()
        finish(3)

    holder = {}

    @seed(args.seed)
    @settings(max_examples=args.examples, database=None, deadline=None, derandomize=False,
              report_multiple_bugs=False, suppress_health_check=list(HealthCheck),
              phases=[Phase.generate, Phase.shrink], verbosity=Verbosity.quiet)
    @given(prop.strategy(args.tier))
    def search(case):
        # Hypothesis lowers the interpreter's recursion limit to ~2000 frames while a test runs; deep (but finite) trees
        # of the nesting-limit classes need more in the pure-Python model code
        sys.setrecursionlimit(200000)
        last.write(case)
        stats.evaluations += 1
        try:
            run_one(lib, prop, case, stats)
        except Violation as v:
            holder["case"] = case
            holder["v"] = v
            raise

    if args.lastcase:
        # from here on every case is short: the runner's watchdog may now treat a case that stays current for minutes as a hang
        # (the deterministic sweeps of the prelude are long single steps by design)
        open(args.lastcase + ".search", "w").close()
    try:
        search()
    except Violation:
        v = holder["v"]
        result["failure"] = {"case": core.enc(holder["case"]), "msg": v.msg,
                             "key": prop.finding_key(holder["case"], v), "detail": v.detail}
    except Exception:
        if "v" in holder:
            # Hypothesis saw the violation and could not reproduce it while shrinking (a schedule-dependent failure in C20): the case
            # that failed is reported as it is; the runner decides by its own replays in fresh processes whether it stands
            v = holder["v"]
            result["failure"] = {"case": core.enc(holder["case"]), "msg": v.msg,
                                 "key": prop.finding_key(holder["case"], v), "detail": v.detail}
            result["flaky_in_search"] = True
        else:
            result["harness_error"] = traceback.format_exc()
            finish(3)
    finish(0)


if __name__ == "__main__":
    main()
