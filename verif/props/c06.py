"""C06 - any sequence of tree edits behaves like the obvious list/map model."""
from hypothesis import strategies as st

from .. import gens, model
from ..core import Prop, Violation
from ..treemodel import World
from ..treeops import Interp

OPS_WEIGHTED = (
    ["create_scalar"] * 5 + ["create_container"] * 3 + ["create_stringref", "create_containerref", "create_bulk", "create_bulk"] +
    ["add_array"] * 6 + ["add_object"] * 6 + ["add_ref"] * 2 + ["add_helper"] * 3 +
    ["insert"] * 5 + ["detach_ptr"] * 3 + ["detach_idx"] * 4 + ["detach_key"] * 4 +
    ["replace_ptr"] * 4 + ["replace_key"] * 4 + ["set_number", "set_string", "set_string", "set_bool"] +
    ["query"] * 5 + ["delete", "dup"]
)


def op_records(names, max_size):
    rec = st.tuples(st.sampled_from(names), st.integers(0, 4095), st.integers(0, 4095), st.integers(0, 4095), st.integers(0, 4095)).map(list)
    return st.one_of(st.lists(rec, min_size=1, max_size=12), st.lists(rec, min_size=max_size // 3, max_size=max_size),
                     st.lists(rec, min_size=max_size // 2, max_size=max_size))


def seed_trees(max_trees=3):
    leaves = st.one_of(st.just(["n"]), st.just(["t"]), st.just(["f"]),
                       st.sampled_from([0.0, 1.0, -1.5, 2147483648.0, 1e300]).map(lambda d: ["N", d]),
                       st.sampled_from([b"", b"x", b"some string"]).map(lambda s: ["S", s]))
    keys = st.sampled_from([b"a", b"A", b"b", b"k", b"K", b"key", b"", b"0", b"a/b"])
    return st.lists(gens.shaped_documents(leaves, keys, max_leaves=7, min_leaves=2), max_size=max_trees)


def run_program(lib, case, stats, check_every_step=True, final=None):
    w = World(lib, stats, check_every_step)
    it = Interp(w)
    try:
        for jv in case.get("seeds", []):
            w.new_root(w.build(jv))
        w.check_all("building the seed trees")
        it.run(case["ops"])
        if final:
            final(w, it)
        w.check_all("the last step")
        w.delete_all()
    finally:
        w.close()
    return w, it


class C06(Prop):
    ID = "C06"
    RULE = ("operation programs (<= 60 ops, operands late-bound modulo the live candidates) over 1-3 generated seed trees: all Create* "
            "incl. bulk constructors, string/array/object references, AddItemToArray/Object/ObjectCS, AddItemReferenceTo*, the nine "
            "Add<T>ToObject helpers, InsertItemInArray (index -1..size), Detach/Delete by pointer/index/key (both case modes), "
            "Replace by pointer/index/key, SetNumberValue/SetValuestring/SetBoolValue, GetArraySize/GetArrayItem/GetObjectItem[CaseSensitive]/"
            "HasObjectItem/cJSON_ArrayForEach, Duplicate, Delete; NULL arguments, out-of-range indices, missing keys, case-variant keys, "
            "aliasing keys and self-insertion included. After EVERY step every live tree's canonical dump (order, keys, values, flags, "
            "sibling links) must equal the model's and every return value must match. non-trivial = program with an edit on a container "
            "that had been modified before, followed by an append; distinct by program hash")
    ASSUMPTIONS = ["not generated (unspecified by the property): InsertItemInArray beyond the end, key-less items inside objects, "
                   "editing through reference nodes, moves that would make reference views cyclic"]
    REQUIRED_CLASSES = ["nontrivial_program", "self_insert", "reference", "const_key", "case_variant_lookup", "bulk"]

    def budget(self, tier):
        return {"workers": 14, "examples": 1200 if tier == "quick" else 12000}

    def strategy(self, tier):
        return st.fixed_dictionaries({"seeds": seed_trees(), "ops": op_records(OPS_WEIGHTED, 60)})

    def run_case(self, lib, case, stats):
        w, it = run_program(lib, case, stats)
        stats.inner += w.steps
        for f in it.feat:
            stats.cls(f)
        if "edit_on_modified_container" in it.feat and "append_after_edit" in it.feat:
            stats.cls("nontrivial_program")
            stats.nontriv(case, {"ops": [d for d in it.transcript if d != "skip"][:40]})
        if lib.ledger_live() != 0:
            raise Violation("blocks still allocated after deleting every root", key="leak")
        s = lib.stats()
        if s.foreign_free or s.cross_free:
            raise Violation("foreign or double free during the program", key="free")

    def shrink_candidates(self, case):
        ops = case["ops"]
        out = []
        for i in range(len(ops)):
            out.append(dict(case, ops=ops[:i] + ops[i + 1:]))
        if case.get("seeds"):
            for i in range(len(case["seeds"])):
                out.append(dict(case, seeds=case["seeds"][:i] + case["seeds"][i + 1:]))
        return out[:60]


PROP = C06()
