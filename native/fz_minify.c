/* libFuzzer target for cJSON_Minify (C13): the input is cut at its first zero byte and placed in a
 * writable buffer whose terminator is the last accessible byte (PROT_NONE page behind it, canaries
 * in front).  Oracles: stays inside the buffer, result terminated within the original extent and not
 * longer; for inputs that are complete strict JSON texts the minified text parses to an identical tree,
 * contains no blank outside strings, and minifying twice equals minifying once. */
#include "fzcommon.h"

static int inited = 0;

static int strict_complete(const unsigned char *b, size_t n, ref_result_t *rc)
{
    size_t i;
    ref_classify(b, n, CJSON_NESTING_LIMIT, rc);
    if (rc->cls != RC_STRICT)
    {
        return 0;
    }
    for (i = rc->value_end; i < n; i++)
    {
        if (b[i] != ' ' && b[i] != '\t' && b[i] != '\n' && b[i] != '\r')
        {
            return 0;
        }
    }
    return !(n >= 3 && b[0] == 0xEF && b[1] == 0xBB && b[2] == 0xBF);
}

int LLVMFuzzerTestOneInput(const uint8_t *data, size_t size)
{
    size_t n = 0;
    unsigned char *orig;
    unsigned char *buf;
    size_t rl;
    ref_result_t rc;
    int strict;

    if (!inited)
    {
        inited = 1;
        ledger_install(LG_BOTH);
    }
    fz_begin();
    while (n < size && data[n] != 0)
    {
        n++;
    }
    orig = (unsigned char *)probe_malloc(n + 1);
    memcpy(orig, data, n);
    orig[n] = 0;
    buf = guard_rw(orig, n + 1);
    strict = strict_complete(orig, n, &rc);

    cJSON_Minify((char *)buf);

    if (guard_check(buf) != 0)
    {
        fz_fail("C13: wrote before the buffer");
    }
    rl = 0;
    while (rl <= n && buf[rl] != 0)
    {
        rl++;
    }
    if (rl > n)
    {
        fz_fail("C13: result is not terminated within the original extent");
    }
    fz_class(strict ? "strict_json" : "arbitrary_bytes");
    if (memchr(orig, '"', n) != NULL && (memchr(orig, '/', n) != NULL || memchr(orig, '\\', n) != NULL))
    {
        fz_nontrivial(data, n);
    }
    if (strict)
    {
        cJSON *a = cJSON_ParseWithLength((const char *)orig, n);
        cJSON *b = cJSON_ParseWithLength((const char *)buf, rl);
        dump_result_t d1, d2;
        size_t i;
        int in_str = 0;
        unsigned char *again;
        if (a == NULL)
        {
            fz_fail("C13: harness: strict text rejected by the parser");
        }
        if (b == NULL)
        {
            fz_fail("C13: minified valid JSON no longer parses");
        }
        tree_dump(a, 1, 1, &d1);
        tree_dump(b, 1, 1, &d2);
        if (d1.length != d2.length || memcmp(d1.text, d2.text, d1.length) != 0)
        {
            fz_fail("C13: minified valid JSON parses to a different value");
        }
        tree_dump_release(&d1);
        tree_dump_release(&d2);
        cJSON_Delete(a);
        cJSON_Delete(b);
        for (i = 0; i < rl; i++)
        {
            if (in_str)
            {
                if (buf[i] == '\\')
                {
                    i++;
                }
                else if (buf[i] == '"')
                {
                    in_str = 0;
                }
            }
            else if (buf[i] == '"')
            {
                in_str = 1;
            }
            else if (buf[i] == ' ' || buf[i] == '\t' || buf[i] == '\n' || buf[i] == '\r')
            {
                fz_fail("C13: whitespace outside strings survives minification");
            }
        }
        again = guard_rw(buf, rl + 1);
        cJSON_Minify((char *)again);
        if (strlen((char *)again) != rl || memcmp(again, buf, rl) != 0)
        {
            fz_fail("C13: minifying twice differs from minifying once");
        }
        guard_release(again);
    }
    if (ledger_live() != 0)
    {
        fz_fail("C13: allocations left behind");
    }
    guard_release(buf);
    probe_free(orig);
    return 0;
}
