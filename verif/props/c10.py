"""C10 - parse end, error position and termination checking are reliable."""
import random

from hypothesis import strategies as st

from .. import gens, model, fuzzplan
from ..core import Prop, Violation
from ..lib import RC_INVALID, RC_STRICT, NO_OFF, NEVER_STORED
from .c03 import apply_edit, EDIT_ALPHABET, cut0

BOM = b"\xef\xbb\xbf"

TAILS = [b"", b" ", b"\n\t ", b"\x00", b" \x00", b"\t\r\n \x00", b"\x00\x00", b" \x00\x00\x00", b"x", b" x", b"]", b"}", b",", b"1",
         b"\x00x", b" \x00 ", b"\x00 \x00", b" \x01\x02\x00", b"\x1f\x00", b"\x7f\x00", b" \xff", b"\x00\xff", b"//c", b"  \x00garbage\x00",
         b"\x0b\x0c\x00", b" null", b"\x00\x00 ",
         # things a lenient skipper might take for blanks, then a terminator; number-ish continuations
         b"\xef\xbb\xbf\x00", b" \xef\xbb\xbf \x00", b"\xc2\xa0\x00", b"\xe2\x80\xa8\x00", b"\xc2\x85\x00", b"/**/\x00", b"//\n\x00", b"x1F", b"x1F;next", b"X0\x00", b"nf\x00", b"an\x00"]


class C10(Prop):
    ID = "C10"
    RULE = ("valid documents (and one-edit corruptions of them) framed with BOM / leading blanks / a tail drawn from 27 shapes "
            "(blanks, terminators, garbage, bytes after the terminator), parsed through ParseWithOpts and ParseWithLengthOpts with both "
            "values of require_null_terminated, with and without return_parse_end, plus Parse/ParseWithLength, and empty buffers; "
            "libFuzzer fz_parse evaluates the same relations on raw bytes. Oracle: see DESIGN.md C10 (end within the buffer, prefix "
            "re-parses to an identical tree, termination verdict from the independently computed value end, error position == "
            "global error pointer inside the buffer, NULL error pointer after success); plus, for every accepted text whether strict or lenient (raw control and "
            "zero bytes inside string literals included), the relation between the flag values: what follows the parse end reported without the flag "
            "decides the call with the flag. non-trivial = failure offset >= 1 or "
            ">= 1 byte after the value; distinct by (buffer, flags) hash")
    ASSUMPTIONS = ["tails with bytes after an in-buffer terminator get no accept/reject verdict (the statement is silent), only position relations"]
    REQUIRED_CLASSES = ["nt_must_succeed", "nt_must_fail", "nt_open", "failure", "empty_buffer", "prefix_reparsed", "flag_relation_must_succeed",
                        "flag_relation_must_fail", "raw_control_byte_in_string", "degenerate_buffer"]

    def budget(self, tier):
        return {"workers": 10, "examples": 1000 if tier == "quick" else 20000}

    def fuzz_plan(self, tier):
        return [fuzzplan.parse_plan(tier, 300000, 6000000, procs_quick=6, procs_thorough=6)]

    def strategy(self, tier):
        leaves = gens.scalars_text(strings=gens.utf8_strings(6))
        keys = st.one_of(gens.utf8_strings(4), gens.ascii_keys(3))
        docs = st.one_of(gens.documents(leaves, keys, max_leaves=8, max_width=4), leaves)
        wsb = st.lists(st.sampled_from([b" ", b"\t", b"\n", b"\r"]), max_size=2).map(b"".join)
        return st.fixed_dictionaries({
            "jv": docs,
            "rseed": st.integers(0, 2 ** 32 - 1),
            "bom": gens.chance(6),
            "lead": wsb,
            # fixed shapes, or a run of n blanks (every n up to 130: block-wise skipping loops have their boundaries there) and k terminators
            "tail": st.one_of(st.sampled_from(TAILS), st.sampled_from(TAILS),
                              st.tuples(st.integers(0, 130), st.sampled_from([b" ", b"\n", b" \t", b"\r\n"]), st.integers(0, 3), st.sampled_from([b"", b"", b"x", b"\xc2\xa0", b"\xff"])).map(
                                  lambda t: (t[1] * t[0])[:t[0]] + t[3] + b"\x00" * t[2])),
            # degenerate buffers: a byte order mark alone or cut short, with and without a terminator
            "special": st.one_of(st.none(), st.none(), st.none(), st.none(), st.none(), st.none(), st.none(), st.none(), st.none(),
                                 st.sampled_from([BOM, BOM + b"\x00", BOM + b" ", BOM + b" \x00", b"\xef", b"\xef\xbb", b"\xef\xbb\x00", BOM + BOM, BOM + b"\xef", b" ", b"\x00", b"\x00\x00"])),
            "edit": st.one_of(st.none(), st.none(), st.tuples(
                st.sampled_from(["delete", "insert", "replace", "dup", "swap", "truncate"]),
                st.integers(0, 10 ** 6), st.sampled_from(list(EDIT_ALPHABET))).map(list)),
            "empty": gens.chance(41),
            # a raw zero byte (or another control byte) INSIDE a string literal: one of the long-standing lenient forms
            "raw_in_string": st.one_of(st.none(), st.none(), st.none(), st.none(), st.sampled_from([0, 0, 0, 1, 0x1f, 0x0a])),
        })

    def run_case(self, lib, case, stats):
        rnd = random.Random(case["rseed"])
        body = model.emit_text(case["jv"], rnd)
        if case["edit"]:
            body = apply_edit(body, case["edit"][0], case["edit"][1], case["edit"][2])
        if case.get("raw_in_string") is not None:
            inside = string_positions(body)
            if inside:
                at = inside[case["rseed"] % len(inside)]
                body = body[:at] + bytes([case["raw_in_string"]]) + body[at:]
                stats.cls("raw_control_byte_in_string")
        text = (BOM if case["bom"] else b"") + case["lead"] + body + case["tail"]
        if case["empty"]:
            text = b""
        if case.get("special") is not None:
            text = case["special"]
            stats.cls("degenerate_buffer")
        for entry in (0, 1, 2, 3):
            if entry < 2:
                data = cut0(text) + b"\x00"
            else:
                data = text
            n = len(data)
            combos = ((0, 0), (0, 1), (1, 0), (1, 1)) if entry in (1, 3) else ((0, 0),)
            rc = lib.classify(data[:-1] if entry < 2 else data)
            seen = {}
            for rq, want_end in combos:
                # cJSON_bool is an int: every non-zero value requires termination
                po = lib.parse(entry, data, (rq + want_end + case["rseed"]) & 1, rq and (1, 2, -1, 256)[(case["rseed"] >> 3) & 3], want_end)
                stats.inner += 1
                accepted = bool(po.tree)
                seen[(rq, want_end)] = (accepted, po.end_off)
                if rq == 1 and seen.get((0, 1), (False, 0))[0] and n > 0:
                    # relation between the two flag values, for ANY accepted text (strict or lenient): the call without the
                    # flag reported where the value ends; what follows that point decides the call with the flag
                    e = seen[(0, 1)][1]
                    if 0 <= e <= n:
                        tail = data[e:]
                        k = 0
                        while k < len(tail) and tail[k] != 0 and tail[k] <= 0x20:
                            k += 1
                        where = "entry=%d want_end=%d buffer=%r (parse end without the flag: %d)" % (entry, want_end, data[:120], e)
                        if k == len(tail) or tail[k] > 0x20:
                            stats.cls("flag_relation_must_fail")
                            if accepted:
                                lib.cJSON_Delete(po.tree)
                                raise Violation("termination required and the value is not followed by blanks and a zero byte, yet the parse succeeded (%s)" % where, key="nt-accepted-rel")
                        elif all(c == 0 for c in tail[k:]):
                            stats.cls("flag_relation_must_succeed")
                            if not accepted:
                                raise Violation("a text accepted without the flag and followed only by blanks and a terminator is rejected when termination is required (%s)" % where, key="nt-rejected-rel")
                self.judge(lib, stats, data, n, entry, rq, want_end, po, rc)
                if accepted and n > 0 and (case["rseed"] + entry) % 3 == 0:
                    # the same call with its k-th allocation refused: a failure for whatever reason must report a position
                    for k in (1, 2, 3):
                        lib.ledger_arm(k)
                        po2 = lib.parse(entry, data, 0, rq, want_end)
                        lib.ledger_arm(0)
                        stats.inner += 1
                        if po2.tree:
                            lib.cJSON_Delete(po2.tree)
                            break
                        stats.cls("failure_by_allocation")
                        where = "entry=%d require_null_terminated=%d allocation %d refused, buffer=%r" % (entry, rq, k, data[:80])
                        if po2.err_off == NO_OFF or not (0 <= po2.err_off <= n - 1):
                            raise Violation("failed parse without an error position inside the buffer (%s): %s" % (
                                "NULL" if po2.err_off == NO_OFF else po2.err_off, where), key="errpos-alloc")
                        if want_end and po2.end_off != po2.err_off:
                            raise Violation("return_parse_end (%s) differs from the global error pointer (%d) after a failed parse (%s)" % (
                                "not stored" if po2.end_off == NEVER_STORED else po2.end_off, po2.err_off, where), key="errpos-alloc")

    def judge(self, lib, stats, data, n, entry, rq, want_end, po, rc):
        where = "entry=%d require_null_terminated=%d want_end=%d buffer=%r" % (entry, rq, want_end, data[:120])
        tree = po.tree
        try:
            if n == 0:
                stats.cls("empty_buffer")
                if tree:
                    raise Violation("empty buffer accepted (%s)" % where, key="empty")
                if po.err_off != 0:
                    raise Violation("empty buffer: error position is not the buffer start (%s)" % where, key="errpos")
                if want_end and po.end_off != 0:
                    raise Violation("empty buffer: return_parse_end is not the buffer start (%s)" % where, key="errpos")
                return
            if tree:
                if po.err_off != NO_OFF:
                    raise Violation("global error pointer not NULL after a successful parse (%s)" % where, key="stale-error")
                if want_end:
                    if po.end_off == NEVER_STORED:
                        raise Violation("return_parse_end not stored on success (%s)" % where, key="end-missing")
                    if not (0 <= po.end_off <= n):
                        raise Violation("parse end %d outside the buffer of %d bytes (%s)" % (po.end_off, n, where), key="end-range")
                    pre = data[:po.end_off]
                    again = lib.parse(2, pre, 0, 0, 0)
                    if not again.tree:
                        raise Violation("the %d bytes before the parse end do not parse by themselves (%s)" % (po.end_off, where), key="prefix")
                    d1 = lib.dump(tree)
                    d2 = lib.dump(again.tree)
                    lib.cJSON_Delete(again.tree)
                    stats.cls("prefix_reparsed")
                    if d1[0] != d2[0]:
                        raise Violation("the bytes before the parse end parse to a different tree (%s)" % where, key="prefix")
            else:
                stats.cls("failure")
                if po.err_off == NO_OFF:
                    raise Violation("global error pointer NULL after a failed parse (%s)" % where, key="errpos")
                if not (0 <= po.err_off <= n - 1):
                    raise Violation("error position %d outside the buffer of %d bytes (%s)" % (po.err_off, n, where), key="errpos")
                if want_end and po.end_off != po.err_off:
                    raise Violation("return_parse_end (%d) differs from the global error pointer (%d) (%s)" % (po.end_off, po.err_off, where), key="errpos")
                if po.err_off >= 1:
                    stats.nontriv([data, entry, rq, want_end], {"buffer": data, "entry": entry, "require_null_terminated": rq, "error_offset": po.err_off})
            if rc.cls == RC_STRICT:
                v = rc.value_end
                if v < n:
                    stats.nontriv([data, entry, rq, want_end], {"buffer": data, "entry": entry, "require_null_terminated": rq, "value_end": v})
                if not rq:
                    if not tree:
                        raise Violation("bytes after a complete value caused a failure although termination was not required (%s)" % where, key="trailing")
                else:
                    tail = data[v:]
                    k = 0
                    while k < len(tail) and tail[k] != 0 and tail[k] <= 0x20:
                        k += 1
                    verdict = None
                    if k == len(tail) or tail[k] > 0x20:
                        verdict = False
                    elif all(c == 0 for c in tail[k:]):
                        verdict = True
                    stats.cls("nt_must_succeed" if verdict else "nt_must_fail" if verdict is False else "nt_open")
                    if verdict is True and not tree:
                        raise Violation("value followed only by blanks and a terminator was rejected (%s)" % where, key="nt-rejected")
                    if verdict is False and tree:
                        raise Violation("termination required, no terminator follows the value, yet the parse succeeded (%s)" % where, key="nt-accepted")
            elif rc.cls == RC_INVALID and tree:
                # C03's verdict; here only noted so that C10 stays within its own statement
                stats.cls("invalid_accepted_(C03_matter)")
        finally:
            if tree:
                lib.cJSON_Delete(tree)
        if lib.ledger_live() != 0:
            raise Violation("allocations left after the call (%s)" % where, key="leak")


def string_positions(body):
    """offsets strictly inside string literals of a valid JSON text (not splitting an escape sequence)"""
    out = []
    in_str = False
    i = 0
    while i < len(body):
        c = body[i]
        if in_str:
            if c == 0x5C:
                i += 6 if body[i + 1:i + 2] == b"u" else 2
                if in_str:
                    out.append(min(i, len(body)))
                continue
            if c == 0x22:
                in_str = False
            else:
                out.append(i)
        elif c == 0x22:
            in_str = True
            out.append(i + 1)
        i += 1
    return [p for p in out if p <= len(body)]


PROP = C10()
