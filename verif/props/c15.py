"""C15 - JSON Pointer resolution follows RFC 6901 and inverts pointer construction."""
import ctypes
import random

from hypothesis import strategies as st

from .. import gens, model, printing, rfc
from ..core import Prop, Violation

LONG_KEYS = [b"k" * n for n in (30, 59, 60, 61, 62, 63, 64, 65, 127, 128)] + [b"p/" + b"q" * 58, b"~" * 31]
UKEYS = [b"", b"a", b"A", b"b", b"0", b"1", b"01", b"-", b"~", b"/", b"~0", b"~1", b"a/b", b"m~n", b"10", b"2", b"~01", b"//", b"a~", b" ", b"e",
         b"\xc3\xa9", b"\xff", b"\x80a", b"z\xc3\xa9", b"\x7f"]
HUGE = [2 ** 31, 2 ** 31 + 1, 2 ** 32, 2 ** 32 + 1, 2 ** 32 + 2, 2 ** 63, 2 ** 63 + 1, 2 ** 64 - 1, 2 ** 64, 2 ** 64 + 1, 2 ** 64 + 2, 10 ** 19, 10 ** 20 + 1]
EDIT_CHARS = b"/~0123456789:Aa-+ ~1~0e."


# numbers at the ends of the double range and beyond the int range; any two of them (and any of them and a k/8 grid number)
# differ by far more than the relative tolerance, so "equal" and "equal within DBL_EPSILON" coincide on the whole pool
TINY_NUMBERS = [5e-324, 1e-310, 1e-308, 3e-308, -1e-308, -3e-308, 2.2250738585072014e-308, 1e-300, 1.00000001e-300, 4e-292]
HUGE_NUMBERS = [1e300, 1.5e300, -1e300, 1.7976931348623157e308, -1.7976931348623157e308, 8.9e307]
EDGE_NUMBERS = TINY_NUMBERS + HUGE_NUMBERS + [2147483648.0, -2147483649.0, 4294967296.0, 9007199254740994.0, 1e15, 0.1, 1e-7, 123456789.125]


def other_number(x, rnd):
    """a number different from x (by much more than the tolerance) and, for very small / very large x, of similar magnitude"""
    if x != 0.0 and abs(x) < 1e-290:
        pool = [t for t in TINY_NUMBERS + [0.0] if t != x]
    elif abs(x) > 1e290:
        pool = [t for t in HUGE_NUMBERS if t != x]
    else:
        pool = [x + d for d in (1.0, -1.0, 0.5, 3.0, -0.125)] + ([5e-324, 1e-310] if x == 0.0 else [])
    return rnd.choice(pool)


def utils_documents(max_leaves=12, min_leaves=1, wide=True):
    leaves = st.one_of(st.just(["n"]), st.just(["t"]), st.just(["f"]),
                       st.integers(-20, 20).map(lambda i: ["N", float(i)]),
                       st.integers(-40, 40).map(lambda i: ["N", i / 8.0]),
                       st.sampled_from(EDGE_NUMBERS).map(lambda d: ["N", d]),
                       st.sampled_from([b"", b"x", b"str", b"a/b", b"~"]).map(lambda s: ["S", s]))
    keys = st.one_of(st.sampled_from(UKEYS), st.sampled_from(UKEYS), st.lists(st.sampled_from(list(b"aA01/~-b")), max_size=3).map(bytes),
                     st.sampled_from(LONG_KEYS))
    docs = [gens.shaped_documents(leaves, keys, max_leaves=max_leaves, min_leaves=min_leaves, unique_keys=True),
            gens.shaped_documents(leaves, keys, max_leaves=5, unique_keys=True)]
    if wide:
        # wide arrays so that two-digit indices exist
        docs.append(st.tuples(st.integers(11, 64), st.lists(leaves, min_size=1, max_size=4),
                              gens.shaped_documents(leaves, keys, max_leaves=4, unique_keys=True)).map(
            lambda t: ["O", [[b"w", ["A", [t[1][i % len(t[1])] for i in range(t[0])]]], [b"d", t[2]]]]))
        docs.append(st.tuples(st.integers(28, 64), leaves).map(lambda t: ["A", [t[1] if i % 5 else ["A", [["N", float(i)]]] for i in range(t[0])]]))
        # arrays long enough that every single byte, read as "byte - '0'", would alias an existing element (0xFF - 0x30 = 207)
        docs.append(st.tuples(st.sampled_from([80, 130, 210, 260]), leaves).map(lambda t: ["O", [[b"v", ["A", [["N", float(i)] if i % 7 else t[1] for i in range(t[0])]]]]]))
        # one member for every byte value 1..255 as a one-byte name, and names with a byte >= 0x80 next to '/', '~' and letters:
        # whatever a name's bytes are, only '~' and '/' are escaped and every other byte stands for itself
        allbytes = ["O", [[bytes([c]), ["N", float(c)]] for c in range(1, 256)]]
        mixed = ["O", [[k, ["A", [["N", float(i)], ["O", [[bytes([0x80 + (37 * i) % 128]) + b"x", ["t"]]]]]]] for i, k in enumerate(
            [b"na\xc3\xafve", b"\xaf", b"\xfe", b"\xaf/", b"~\xfe", b"\xc3\xbe~", b"a\xaf", b"\xafa", b"\xfe0", b"\xe2\x82\xac", b"\xae", b"\xb0", b"\xfd", b"\xff/\xff"])]]
        docs.append(st.sampled_from([allbytes, mixed]))
    # names that are beginnings of one another, the longer ones first, each holding a container: a token must match a whole name
    small = gens.shaped_documents(leaves, st.sampled_from([b"x", b"y", b"0", b"cfg"]), max_leaves=3, unique_keys=True)
    docs.append(st.tuples(st.sampled_from([b"cfg", b"a", b"0", b"1", b"k" * 20, b"item", b"A"]), small, small, small, small, st.integers(0, 3)).map(
        lambda t: ["O", [[t[0] + b"20", t[1]], [t[0] + b"2", t[2]], [t[0], t[3]], [t[0][:-1] if len(t[0]) > 1 else b"z", t[4]]][t[5]:] +
                   [[t[0] + b"20", t[1]], [t[0] + b"2", t[2]], [t[0], t[3]], [t[0][:-1] if len(t[0]) > 1 else b"z", t[4]]][:t[5]]]))
    return st.one_of(*docs)


def map_ptrs(lib, root, jv):
    """C pointer -> position path (tuple), by walking the built tree in parallel with the JV"""
    out = {}

    def rec(p, node, path):
        out[p] = path
        if node[0] in "AO":
            kids = lib.children(p)
            for i, kp in enumerate(kids):
                rec(kp, node[1][i] if node[0] == "A" else node[1][i][1], path + (i,))
    rec(root, jv, ())
    return out


class C15(Prop):
    ID = "C15"
    RULE = ("documents with distinct keys over an alphabet including '', '/', '~', '~0', '~1', '01', '-', digits, and arrays of up to 64 elements; "
            "pointer strings: (a) the true pointer of a drawn node, (b) that pointer with one edit (character replaced/inserted/deleted from "
            "{/ ~ 0-9 : A a - + space e .}, leading zero, ~0<->~1<->~2<->~, trailing '/', leading '/' removed, digits appended up to 2^64+k, "
            "case flipped), (c) free strings over {/,~,0,1,digits,letters,-}, (d) for arrays (up to 260 elements) EVERY single-byte token and a third of all digit+byte / byte+digit tokens, (e) single-child chains 998..3000 deep built through the API (lookup and construction at several depths), (f) object chains in which one member's constant key IS the memory of the pointer string from some token on, (g) a reference container over a stand-alone item appended to a quarter of the documents, (h) an object with every byte value 1..255 as a one-byte name and names mixing bytes >= 0x80 with / and ~, (i) sibling names that are beginnings of one another (longer ones first) with containers below. Oracle: GetPointerCaseSensitive returns exactly the node (by "
            "position) the RFC 6901 reference resolver designates, else NULL. For EVERY (root or inner container, node) pair of each "
            "document FindPointerFromObjectTo equals the reference-escaped pointer, resolves back to the node and is released with "
            "cJSON_free. non-trivial = (doc, pointer) with >= 2 tokens, an escape, or an array index >= 10; distinct by hash")
    ASSUMPTIONS = ["keys are distinct per object (first-match semantics under duplicates is not part of the statement)"]
    REQUIRED_CLASSES = ["valid", "invalid_index", "invalid_escape", "no_leading_slash", "empty_token_on_array", "index>=10", "huge_index",
                        "construction_pairs", "missing_member", "dash", "case_flip", "ownership_flags_variant", "deep_chain", "single_byte_tokens", "key_is_pointer_memory", "reference_over_standalone_item"]

    def budget(self, tier):
        return {"workers": 12, "examples": 1200 if tier == "quick" else 30000}

    def strategy(self, tier):
        deep = st.fixed_dictionaries({
            "kind": st.just("deep"),
            "depth": st.sampled_from([998, 999, 1000, 1001, 1002, 1500, 3000]),
            "shape": st.sampled_from(["A", "O", "AO", "OA", "AAO"]),
            "key": st.sampled_from([b"k", b"", b"a/b", b"~", b"0", b"m~n"]),
        })
        # pointer text and a member name that are THE SAME BYTES in memory: a constant key (cJSON_AddItemToObjectCS) that points into
        # the buffer holding the pointer, at the start of one of its tokens (applications keep paths in constants and reuse them)
        tok = st.sampled_from([b"a", b"b", b"A", b"~0", b"~1", b"~", b"a~1b", b"m~0n", b"0", b"1", b"", b"-", b"k" * 70, b"~01", b"~2", b"e"])
        alias = st.fixed_dictionaries({"kind": st.just("alias"), "tokens": st.lists(tok, min_size=1, max_size=4), "where": st.integers(0, 3),
                                       "first": st.booleans(), "noise": st.lists(st.sampled_from(UKEYS), max_size=3, unique=True),
                                       "leaf": st.sampled_from([["n"], ["N", 7.0], ["S", b"leaf"], ["A", [["t"]]]])})
        return gens.weighted((59, self.doc_strategy()), (1, deep), (6, alias))

    def doc_strategy(self):
        return st.fixed_dictionaries({
            "jv": utils_documents(),
            "node": st.integers(0, 10 ** 6),
            "mode": st.sampled_from(["true", "edit", "edit", "edit", "free", "special", "special"]),
            "rseed": st.integers(0, 2 ** 31),
            "free": st.lists(st.sampled_from(list(b"/~01234567899aAbk-")), max_size=10).map(bytes),
        })

    def edit_pointer(self, p, rnd):
        k = rnd.randrange(14)
        pos = rnd.randrange(len(p) + 1)
        if k == 0 and p:
            return p[:pos % len(p)] + p[pos % len(p) + 1:]
        if k == 1:
            return p[:pos] + bytes([rnd.choice(EDIT_CHARS)]) + p[pos:]
        if k == 2 and p:
            i = pos % len(p)
            return p[:i] + bytes([rnd.choice(EDIT_CHARS)]) + p[i + 1:]
        if k == 3:
            return p + b"/"
        if k == 4:
            return p[1:]
        if k == 5:
            return p + rnd.choice([b"0", b"00", b"A", b"1A", b"a", b"e0", b".0", b" ", b"+"])
        if k == 6:
            # leading zero / sign on the last token
            i = p.rfind(b"/")
            return p[:i + 1] + rnd.choice([b"0", b"-", b"+", b"00"]) + p[i + 1:]
        if k == 7:
            return p.replace(b"~0", rnd.choice([b"~1", b"~2", b"~", b"~~"]), 1) if b"~0" in p else p + b"~"
        if k == 8:
            return p.replace(b"~1", rnd.choice([b"~0", b"~3", b"~", b"/"]), 1) if b"~1" in p else p + b"~2"
        if k == 9:
            i = p.rfind(b"/")
            tok = p[i + 1:]
            if tok.isdigit():
                # an index that only aliases an existing element after truncation to 32/64 bits
                return p[:i + 1] + str(int(tok) + rnd.choice([2 ** 64, 2 ** 32, 2 ** 31, 2 ** 63, 2 * 2 ** 32])).encode()
            return p + b"/%d" % rnd.choice(HUGE)
        if k == 10:
            return p.swapcase()
        if k == 11:
            return p + b"/-"
        if k == 12:
            return b"/" + p
        return p + b"/" + rnd.choice([b"0", b"1", b"a", b"", b"~0", b"~1"])

    def run_deep(self, lib, case, stats):
        """single-child chains deeper than anything the parser produces (the construction API has no depth limit): lookup
        is a loop, construction a recursion; both must work for every node that is in the tree"""
        depth, shape, key = case["depth"], case["shape"], case["key"]
        root = lib.cJSON_CreateArray() if shape[0] == "A" else lib.cJSON_CreateObject()
        cur = root
        toks = []
        nodes = [root]
        try:
            for i in range(1, depth + 1):
                kind = shape[i % len(shape)]
                child = (lib.cJSON_CreateArray() if kind == "A" else lib.cJSON_CreateObject()) if i < depth else lib.cJSON_CreateNumber(7.0)
                if shape[(i - 1) % len(shape)] == "A":
                    lib.cJSON_AddItemToArray(cur, child)
                    toks.append(b"0")
                else:
                    lib.cJSON_AddItemToObject(cur, key, child)
                    toks.append(key)
                cur = child
                nodes.append(child)
            stats.cls("deep_chain")
            stats.nontriv(["deep", depth, shape, key], {"deep_chain_depth": depth, "shape": shape, "key": key})
            for d in sorted(set([depth, depth - 1, depth // 2, 999, 1000, 1001, 1])):
                if d > depth or d < 1:
                    continue
                want = rfc.ptr_build(toks[:d])
                got_ptr = lib.cJSONUtils_GetPointerCaseSensitive(root, want)
                stats.inner += 2
                if got_ptr != nodes[d]:
                    raise Violation("GetPointerCaseSensitive does not find the node %d levels down a %d-deep chain" % (d, depth), key="deep-lookup")
                raw = lib.cJSONUtils_FindPointerFromObjectTo(root, nodes[d])
                if not raw:
                    raise Violation("FindPointerFromObjectTo returned NULL for the node %d levels down a %d-deep chain" % (d, depth), key="deep-construct-null")
                got = ctypes.string_at(raw)
                lib.cJSON_free(raw)
                if got != want:
                    raise Violation("FindPointerFromObjectTo gives a wrong pointer for the node %d levels down (%d vs %d bytes)" % (d, len(got), len(want)), key="deep-construct-text")
            over = rfc.ptr_build(toks + [b"0"])
            if lib.cJSONUtils_GetPointerCaseSensitive(root, over):
                raise Violation("a pointer one token longer than the chain resolved to a node", key="deep-over")
        finally:
            lib.cJSON_Delete(root)
        if lib.ledger_live() != 0:
            raise Violation("pointer functions left allocations behind", key="leak")

    def run_alias(self, lib, case, stats):
        toks_raw = case["tokens"]
        P = b"".join(b"/" + t for t in toks_raw)
        n = len(toks_raw)
        w = case["where"] % n
        j = len(b"".join(b"/" + t for t in toks_raw[:w])) + 1
        K = P[j:]                                    # the alias member's name: the rest of the pointer text, taken literally
        decoded = []
        for t in toks_raw:
            try:
                decoded.append(rfc.ptr_tokens(b"/" + t)[0])
            except rfc.PointerError:
                decoded.append(None)
        # the document: the chain of objects the pointer walks, with some other members at every level, and at level w one more
        # member whose name is K; its value has members named like the remaining tokens, so a wrong turn ends at a wrong node
        placed = []

        def level(i):
            if i == n:
                return case["leaf"]
            members = []
            if decoded[i] is not None:
                members.append([decoded[i], level(i + 1)])
            for k in case["noise"]:
                if all(k != m[0] for m in members):
                    members.append([k, ["N", float(i)]])
            if i == w and all(K != m[0] for m in members):
                trap = ["O", [[d, ["S", b"wrong turn"]] for d in dict.fromkeys(x for x in decoded[i + 1:] if x is not None)]]
                members.insert(0 if case["first"] else len(members), ["ALIAS", trap])
                placed.append(i)
            return ["O", members]
        shape = level(0)
        arena = printing.Arena(lib)
        base = arena.put(P)

        def build(node):
            if node[0] != "O":
                return printing.build_tree(lib, node)
            o = lib.cJSON_CreateObject()
            for k, v in node[1]:
                if k == "ALIAS":
                    lib.cJSON_AddItemToObjectCS(o, base + j, build(v))
                else:
                    lib.cJSON_AddItemToObject(o, k, build(v))
            return o

        def plain(node):
            if node[0] == "O":
                return ["O", [[K if k == "ALIAS" else k, plain(v)] for k, v in node[1]]]
            return node
        jv = plain(shape)
        has_alias = bool(placed)
        root = build(shape)
        try:
            ptrmap = map_ptrs(lib, root, jv)
            if has_alias:
                stats.cls("key_is_pointer_memory")
            try:
                want = tuple(rfc.resolve_path(jv, P))
            except rfc.PointerError:
                want = None
            stats.nontriv(["alias", P, w, case["first"], case["noise"]], {"pointer": P, "constant_key_points_at_offset": j, "key": K,
                                                                            "designates": list(want) if want is not None else None})
            for how in ("same memory", "copy"):
                got_ptr = lib.cJSONUtils_GetPointerCaseSensitive(root, ctypes.c_char_p(base) if how == "same memory" else P)
                stats.inner += 1
                got = ptrmap.get(got_ptr, "unknown-node") if got_ptr else None
                if got != want:
                    raise Violation("GetPointerCaseSensitive(%r) (%s as the constant key %r of a member) returned %s, RFC 6901 designates %s; document %s" % (
                        P, how, K, got, want, model.emit_text(jv)[:200]), key="lookup:alias")
        finally:
            lib.cJSON_Delete(root)
            arena.close()
        if lib.ledger_live() != 0:
            raise Violation("pointer functions left allocations behind", key="leak")

    def run_case(self, lib, case, stats):
        if case.get("kind") == "deep":
            return self.run_deep(lib, case, stats)
        if case.get("kind") == "alias":
            return self.run_alias(lib, case, stats)
        jv = case["jv"]
        rnd = random.Random(case["rseed"])
        arena = printing.Arena(lib)
        flagged = case["rseed"] % 3 == 0
        root = printing.build_flagged(lib, jv, arena, rnd) if flagged else printing.build_tree(lib, jv)
        if flagged:
            stats.cls("ownership_flags_variant")
        standalone = None
        if case["rseed"] % 4 == 1 and jv[0] in "AO" and all(k != b"via reference" for k, _ in (jv[1] if jv[0] == "O" else [])):
            # a reference container over a STAND-ALONE item (never a member of anything, or detached earlier): its nodes are inside the tree too
            inner = [["N", 1.0], ["A", [["t"], ["n"]]], ["O", [[b"a/b", ["S", b"x"]]]]][case["rseed"] // 4 % 3]
            standalone = printing.build_tree(lib, inner)
            as_object = case["rseed"] // 12 % 2 == 1
            if as_object:
                tmp = lib.cJSON_CreateObject()
                lib.cJSON_AddItemToObject(tmp, b"former~name", standalone)
                lib.cJSON_DetachItemViaPointer(tmp, standalone)
                lib.cJSON_Delete(tmp)
                ref = lib.cJSON_CreateObjectReference(standalone)
                extra = ["O", [[b"former~name", inner]]]
            else:
                ref = lib.cJSON_CreateArrayReference(standalone)
                extra = ["A", [inner]]
            if jv[0] == "A":
                lib.cJSON_AddItemToArray(root, ref)
                jv = ["A", jv[1] + [extra]]
            else:
                lib.cJSON_AddItemToObject(root, b"via reference", ref)
                jv = ["O", jv[1] + [[b"via reference", extra]]]
            stats.cls("reference_over_standalone_item")
        try:
            ptrmap = map_ptrs(lib, root, jv)
            paths = list(rfc.all_paths(jv))
            path = paths[case["node"] % len(paths)]
            true_ptr = rfc.pointer_of(jv, path)
            mode = case["mode"]
            if mode == "true":
                cands = [true_ptr]
            elif mode == "edit":
                cands = [self.edit_pointer(true_ptr, rnd) for _ in range(4)]
            elif mode == "free":
                cands = [case["free"], b"/" + case["free"]]
            else:
                arrs = [p for p in paths if rfc.node_at(jv, p)[0] == "A"]
                cands = [b"abc", b"a", b"0", b"/", true_ptr + b"/", b"//", b"~", b"/~", b"/~2", b"-", b"/-"]
                arrs.sort(key=lambda ap: -len(rfc.node_at(jv, ap)[1]))
                for ap in arrs[:2]:
                    base = rfc.pointer_of(jv, ap)
                    n = len(rfc.node_at(jv, ap)[1])
                    cands += [base + b"/", base + b"/-", base + b"/%d" % n, base + b"/%d" % (n - 1) if n else base + b"/0", base + b"/1A", base + b"/01",
                              base + b"/0x1", base + b"/ 1", base + b"/1 ", base + b"/+1", base + b"/1e0", base + b"/18446744073709551616",
                              base + b"/18446744073709551617", base + b"/1/", base + b"/00", base + b"/-0", base + b"/2A", base + b"/1a"]
                    cands += [base + b"/%d" % (h + k) for h in (2 ** 31, 2 ** 32, 2 ** 63, 2 ** 64) for k in (0, 1)]
                    cands += [base + b"/%d/0" % (2 ** 32 + 1), base + b"/%d/a" % (2 ** 32)]
                    if ap is not arrs[0]:
                        continue
                    # EVERY single-byte token, and digit+byte / byte+digit tokens (largest array only)
                    cands += [base + b"/" + bytes([c]) for c in range(1, 256)]
                    cands += [base + b"/" + bytes([d, c]) for d in (0x30, 0x31, 0x39) for c in range(1, 256, 3)]
                    cands += [base + b"/" + bytes([c, d]) for d in (0x30, 0x31) for c in range(2, 256, 3)]
                    stats.cls("single_byte_tokens")
            for p in cands:
                if b"\x00" in p:
                    continue
                self.check_lookup(lib, stats, root, jv, ptrmap, p, p == true_ptr)
            self.check_construction(lib, stats, root, jv, ptrmap, paths, rnd)
        finally:
            lib.cJSON_Delete(root)
            if standalone:
                lib.cJSON_Delete(standalone)
            arena.close()
        if lib.ledger_live() != 0:
            raise Violation("pointer functions left allocations behind", key="leak")

    def check_lookup(self, lib, stats, root, jv, ptrmap, p, is_true):
        try:
            want = tuple(rfc.resolve_path(jv, p))
            err = None
        except rfc.PointerError as e:
            want = None
            err = str(e)
        # errno as left behind by unrelated earlier calls (ERANGE after parsing "1e999", EINVAL, ...) must not matter
        got_ptr = lib.shim_get_pointer_errno(root, p, 1, 0)
        for e in (34, 22):
            if lib.shim_get_pointer_errno(root, p, 1, e) != got_ptr:
                raise Violation("GetPointerCaseSensitive(%r) gives a different answer when errno is %d on entry (left there by an unrelated earlier call)" % (p, e),
                                key="lookup:errno")
        stats.inner += 3
        got = ptrmap.get(got_ptr, "unknown-node") if got_ptr else None
        cls = "valid" if want is not None else {"does not start with '/'": "no_leading_slash", "invalid ~ escape": "invalid_escape",
                                                "not an array index": "invalid_index", "index out of range": "index_out_of_range",
                                                "no such member": "missing_member", "not a container": "through_scalar"}.get(err, "other")
        stats.cls(cls)
        toks = p.split(b"/")[1:] if p[:1] == b"/" else []
        if err == "not an array index" and any(t == b"" for t in toks):
            stats.cls("empty_token_on_array")
        if err == "not an array index" and any(t == b"-" for t in toks):
            stats.cls("dash")
        if any(t.isdigit() and len(t) >= 19 for t in toks):
            stats.cls("huge_index")
        if want is not None and any(t.isdigit() and int(t) >= 10 for t in toks):
            stats.cls("index>=10")
        if p != p.swapcase() and not is_true and want is None:
            stats.cls("case_flip")
        if len(toks) >= 2 or b"~" in p or any(t.isdigit() and len(t) >= 2 for t in toks):
            stats.nontriv([jv, p], {"pointer": p, "designates": list(want) if want is not None else None, "why_null": err})
        if got != want:
            raise Violation("GetPointerCaseSensitive(%r) returned %s, RFC 6901 designates %s%s; document %s" % (
                p, "the node at position %s" % (list(got),) if isinstance(got, tuple) else got,
                "the node at position %s" % (list(want),) if want is not None else "nothing",
                " (%s)" % err if err else "", model.emit_text(jv)[:160]),
                key="lookup:%s" % (cls if want is None else "valid"))

    def check_construction(self, lib, stats, root, jv, ptrmap, paths, rnd):
        inv = {v: k for k, v in ptrmap.items()}
        containers = [p for p in paths if rfc.node_at(jv, p)[0] in "AO"]
        starts = [()] + [tuple(p) for p in rnd.sample(containers, min(2, len(containers)))]
        n = 0
        for start in starts:
            sub = rfc.node_at(jv, list(start))
            sp = inv[tuple(start)]
            for rel in rfc.all_paths(sub):
                target = inv[tuple(start) + tuple(rel)]
                want = rfc.pointer_of(sub, rel)
                raw = lib.cJSONUtils_FindPointerFromObjectTo(sp, target)
                n += 1
                if not raw:
                    raise Violation("FindPointerFromObjectTo returned NULL for a node inside the tree (expected %r)" % want, key="construct-null")
                got = ctypes.string_at(raw)
                if not lib.ledger_is_live(raw):
                    raise Violation("the constructed pointer string does not come from the installed allocator", key="construct-alloc")
                back = lib.cJSONUtils_GetPointerCaseSensitive(sp, got)
                lib.cJSON_free(raw)
                if got != want:
                    raise Violation("FindPointerFromObjectTo gives %r, the correctly escaped pointer is %r" % (got, want), key="construct-text")
                if back != target:
                    raise Violation("the constructed pointer %r does not resolve back to its node" % got, key="construct-inverse")
            # a node outside the subtree has no pointer
            if start:
                r = lib.cJSONUtils_FindPointerFromObjectTo(sp, inv[()])
                if r:
                    lib.cJSON_free(r)
                    raise Violation("FindPointerFromObjectTo found a path from a subtree to its ancestor", key="construct-outside")
        stats.cls("construction_pairs", n)
        stats.inner += n


PROP = C15()
