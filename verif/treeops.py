"""Operation interpreter: executes op records against the library and the model (treemodel.World)
side by side, checking every return value and every live tree after every step."""
import ctypes
import struct

from . import model
from .core import Violation
from .lib import T_CONST
from .treemodel import MNode, World, sat_int, ARENA_STRINGS, KEY_POOL, STR_POOL, NUM_POOL

LONG_KEY_POOL = [b"k" * 63, b"k" * 64, b"K" * 64, b"k" * 63 + b"X", b"k" * 63 + b"Y", b"k" * 63 + b"x", b"k" * 65, b"q" * 127 + b"a", b"q" * 127 + b"b",
                 b"Q" * 127 + b"B", b"Long key " * 30, b"LONG KEY " * 30, b"long key " * 29 + b"long kez ", b"\xc3\xa9" * 40, b"z" * 1000, b"Z" * 999 + b"z"]
LONG_STR_POOL = [b"L" * 72, b"m" * 100, b"long text " * 30, b"\xc3\xa9" * 60, b"x" * 1000, b"y" * 257, b"z" * 65]
N_KEY_STRINGS = 11   # the first 11 arena strings are keys/values for items; the rest are read by utilities (stored replays keep their meaning)

MAX_ROOTS = 10


def pick(lst, i):
    return lst[i % len(lst)] if lst else None


class Interp:
    def __init__(self, world, allow=None):
        self.w = world
        self.lib = world.lib
        self.modified = {}       # id(container) -> number of successful mutations
        self.feat = set()
        self.edited_modified = False
        self.transcript = []

    # ------------------------------------------------------------ reference graph
    def ref_edges(self):
        w = self.w
        edges = {}
        for r in w.roots:
            tg = set()

            def rec(n):
                if n.is_ref:
                    if not n.dangling:
                        t = n.ref_head if n.t in "AO" else (n.ref_str_of if n.ref_str_of not in (None, "arena") else None)
                        if t is not None:
                            tg.add(id(w.root_of(t)))
                    return
                for c in n.children:
                    rec(c)
            rec(r)
            edges[id(r)] = tg
        return edges

    def merge_ok(self, item_root, target_root):
        """may item_root be moved into target_root without making reference views cyclic?"""
        if item_root is target_root:
            return False
        e = self.ref_edges()
        a, b = id(item_root), id(target_root)
        start = set(x if x != a else b for x in (e.get(a, set()) | e.get(b, set())))
        if b in start:
            return False
        seen = set()
        todo = list(start)
        while todo:
            x = todo.pop()
            if x in seen:
                continue
            seen.add(x)
            for y in e.get(x, ()):
                y = b if y == a else y
                if y == b:
                    return False
                todo.append(y)
        return True

    def ref_ok(self, holder_root, target_node):
        """may a reference to target_node be placed inside holder_root?"""
        w = self.w
        tr = w.root_of(target_node)
        if tr is holder_root:
            return False
        e = self.ref_edges()
        seen = set()
        todo = [id(tr)]
        while todo:
            x = todo.pop()
            if x == id(holder_root):
                return False
            if x in seen:
                continue
            seen.add(x)
            todo.extend(e.get(x, ()))
        return True

    # ------------------------------------------------------------ selection
    def insertable(self, container):
        w = self.w
        R = w.root_of(container)
        return [r for r in w.roots if r is not R and self.merge_ok(r, R)]

    def clean_roots(self):
        return [r for r in self.w.roots if not self.w.has_dangling(r)]

    def live_nodes(self):
        """nodes that may serve as reference targets / query subjects"""
        return [n for n in self.w.all_nodes() if not (n.is_ref and n.dangling)]

    def find_key(self, obj, key, cs):
        for c in obj.children:
            if c.key is None:
                # key-less members only arise as copies of object views over array elements; the
                # case-sensitive walk ends at such a member, the case-insensitive one steps over it
                if cs:
                    return None
                continue
            if cs:
                if c.key == key:
                    return c
            elif model.fold(c.key) == model.fold(key):
                return c
        return None

    def touch(self, container, edit=False):
        k = id(container)
        if edit and self.modified.get(k, 0) > 0 and len(container.children) >= 1:
            self.edited_modified = True
            self.feat.add("edit_on_modified_container")
        self.modified[k] = self.modified.get(k, 0) + 1

    def note_append(self):
        if self.edited_modified:
            self.feat.add("append_after_edit")

    def keyarg(self, sel, item=None, member=None):
        """returns (argument for ctypes, key bytes or None). sel chooses literal / NULL / aliasing forms"""
        m = sel % 16
        if item is not None and item.key is not None and item.key_const and m in (2, 6, 10):
            # an item that still carries a constant key from an earlier life is re-added / used as replacement under that very
            # name (passed as the key pointer itself or as an equal string elsewhere in memory)
            self.feat.add("alias_key")
            if m == 2:
                return item.key, item.key
            return self.lib.shim_key(item.ptr), item.key
        if m == 15:
            return None, None
        if m == 14 and item is not None and item.key is not None:
            self.feat.add("alias_key")
            return self.lib.shim_key(item.ptr), item.key
        if m == 13 and member is not None and member.key is not None:
            self.feat.add("alias_member_key")
            return self.lib.shim_key(member.ptr), member.key
        q = sel // 16
        if q >= 240:
            # names longer than any fixed scratch buffer; several agree in their first 63 / 127 bytes, some differ in case only
            k = LONG_KEY_POOL[q % len(LONG_KEY_POOL)]
            self.feat.add("long_key")
            return k, k
        k = KEY_POOL[q % len(KEY_POOL)]
        return k, k

    # ------------------------------------------------------------ run
    def run(self, ops):
        for rec in ops:
            name = rec[0]
            args = list(rec[1:]) + [0, 0, 0, 0]
            fn = getattr(self, "op_" + name)
            desc = fn(*args[:4])
            self.w.steps += 1
            self.transcript.append(desc)
            if desc and not desc.startswith("skip") and self.w.check_every_step:
                self.w.check_all(desc)

    # ------------------------------------------------------------ create
    def _room(self):
        return len(self.w.roots) < MAX_ROOTS

    def op_create_scalar(self, a, b, c, d):
        if not self._room():
            return "skip"
        lib, w = self.lib, self.w
        k = a % 7
        if k == 0:
            n = w.mk("n", lib.cJSON_CreateNull())
        elif k == 1:
            n = w.mk("t", lib.cJSON_CreateTrue())
        elif k == 2:
            n = w.mk("f", lib.cJSON_CreateFalse())
        elif k == 3:
            n = w.mk("t" if b & 1 else "f", lib.cJSON_CreateBool((b & 1) and (1, 2, -1, 256, 1, 4)[(b >> 1) % 6]))
        elif k == 4:
            v = NUM_POOL[b % len(NUM_POOL)]
            n = w.mknum(lib.cJSON_CreateNumber(v), v)
        elif k == 5:
            s = STR_POOL[b % len(STR_POOL)]
            n = w.mk("S", lib.cJSON_CreateString(s), sval=s)
        else:
            s = [b"{}", b"[1,2]", b"raw text", b"1e5"][b % 4]
            n = w.mk("R", lib.cJSON_CreateRaw(s), sval=s)
        w.new_root(n)
        return "create_scalar(%s)" % n.t

    def op_create_container(self, a, b, c, d):
        if not self._room():
            return "skip"
        lib, w = self.lib, self.w
        n = w.mk("A", lib.cJSON_CreateArray()) if a & 1 else w.mk("O", lib.cJSON_CreateObject())
        w.new_root(n)
        return "create_container(%s)" % n.t

    def op_create_null_string(self, a, b, c, d):
        """CreateString(NULL)/CreateRaw(NULL) are not generated: the header documents no NULL contract"""
        return "skip"

    def op_create_stringref(self, a, b, c, d):
        if not self._room():
            return "skip"
        p, s = self.w.arena[a % N_KEY_STRINGS]
        n = self.w.mk("S", self.lib.cJSON_CreateStringReference(p), sval=s, is_ref=True, ref_str_of="arena")
        self.w.new_root(n)
        self.feat.add("reference")
        return "create_stringref(%r)" % s

    def op_create_containerref(self, a, b, c, d):
        if not self._room():
            return "skip"
        w, lib = self.w, self.lib
        kind = "A" if b & 1 else "O"
        f = lib.cJSON_CreateArrayReference if b & 1 else lib.cJSON_CreateObjectReference
        if a % 11 == 0:
            p0 = f(None)
            if not p0:
                return "create_%sref(NULL) refused" % kind     # unspecified: an empty reference or a refusal are both fine
            n = w.mk(kind, p0, is_ref=True, ref_head=None)
            w.new_root(n)
            return "create_%sref(NULL)" % kind
        x = pick(self.live_nodes(), a)
        if x is None:
            return "skip"
        n = w.mk(kind, f(x.ptr), is_ref=True, ref_head=x)
        x.pins += 1
        w.new_root(n)
        self.feat.add("reference")
        return "create_%sref(node)" % kind

    def op_create_bulk(self, a, b, c, d):
        if not self._room():
            return "skip"
        w, lib = self.w, self.lib
        kind = a % 4
        count = b % 7
        special = c % 9
        vals = [NUM_POOL[(c + i * 3) % len(NUM_POOL)] for i in range(count)]
        if kind == 0:
            ints = [max(-2 ** 31, min(2 ** 31 - 1, int(v))) for v in vals]
            arr = (ctypes.c_int * max(count, 1))(*ints)
            fn, want = lib.cJSON_CreateIntArray, [float(i) for i in ints]
        elif kind == 1:
            fl = [struct.unpack("f", struct.pack("f", v if abs(v) < 3e38 else 1.5))[0] for v in vals]
            arr = (ctypes.c_float * max(count, 1))(*fl)
            fn, want = lib.cJSON_CreateFloatArray, [float(x) for x in fl]
        elif kind == 2:
            arr = (ctypes.c_double * max(count, 1))(*vals)
            fn, want = lib.cJSON_CreateDoubleArray, list(vals)
        else:
            strs = [STR_POOL[(c + i) % len(STR_POOL)] for i in range(count)]
            arr = (ctypes.c_char_p * max(count, 1))(*strs)
            fn, want = lib.cJSON_CreateStringArray, strs
        if special == 0:
            p = fn(None, count)
            w.expect("bulk constructor(NULL, %d)" % count, bool(p), False)
            return "create_bulk(NULL)"
        if special == 1:
            p = fn(arr, -1 - count)
            w.expect("bulk constructor(count<0)", bool(p), False)
            return "create_bulk(negative count)"
        p = fn(arr, count)
        n = w.mk("A", p)
        for v in want:
            cp = None
            if kind == 3:
                ch = MNode("S", 0)
                ch.sval = model.c_bytes(v)
            else:
                ch = MNode("N", 0)
                ch.num = float(v)
                ch.vint = sat_int(float(v))
            ch.parent = n
            n.children.append(ch)
        # bind child pointers
        for ch, cp in zip(n.children, lib.children(p)):
            ch.ptr = cp
        if len(lib.children(p)) != len(n.children):
            raise Violation("bulk constructor made %d elements, %d requested" % (len(lib.children(p)), count), key="bulk-count")
        w.new_root(n)
        self.feat.add("bulk")
        return "create_bulk(kind=%d,count=%d)" % (kind, count)

    # ------------------------------------------------------------ append
    def op_add_array(self, a, b, c, d):
        w, lib = self.w, self.lib
        arr = pick(w.containers("A"), a)
        if arr is None:
            return "skip"
        if b % 13 == 0:
            w.expect("AddItemToArray(array, NULL)", lib.cJSON_AddItemToArray(arr.ptr, None), 0)
            return "add_array(NULL item)"
        if b % 17 == 0:
            w.expect("AddItemToArray(array, array)", lib.cJSON_AddItemToArray(arr.ptr, arr.ptr), 0)
            return "add_array(self)"
        item = pick(self.insertable(arr), b)
        if item is None:
            return "skip"
        if b % 19 == 0:
            w.expect("AddItemToArray(NULL, item)", lib.cJSON_AddItemToArray(None, item.ptr), 0)
            return "add_array(NULL array)"
        w.expect("AddItemToArray", lib.cJSON_AddItemToArray(arr.ptr, item.ptr), 1)
        w.roots.remove(item)
        item.parent = arr
        arr.children.append(item)
        self.touch(arr)
        self.note_append()
        if item.children or item.key is not None:
            self.feat.add("move")
        return "add_array"

    def op_add_object(self, a, b, c, d):
        w, lib = self.w, self.lib
        obj = pick(w.containers("O"), a)
        if obj is None:
            return "skip"
        cs = (d % 3 == 0)
        f = lib.cJSON_AddItemToObjectCS if cs else lib.cJSON_AddItemToObject
        fname = "AddItemToObjectCS" if cs else "AddItemToObject"
        if b % 13 == 0:
            w.expect(fname + "(object, key, NULL)", f(obj.ptr, b"k", None), 0)
            return "add_object(NULL item)"
        if b % 17 == 0:
            w.expect(fname + "(object, key, object)", f(obj.ptr, b"k", obj.ptr), 0)
            return "add_object(self)"
        item = pick(self.insertable(obj), b)
        if item is None:
            return "skip"
        if cs:
            ai = c % N_KEY_STRINGS
            kp, kb = w.arena[ai]
            if c % 23 == 22:
                w.expect(fname + "(object, NULL, item)", f(obj.ptr, None, item.ptr), 0)
                return "add_object_cs(NULL key)"
            w.expect(fname, f(obj.ptr, kp, item.ptr), 1)
            item.key, item.key_const, item.key_ptr = kb, True, ai
            self.feat.add("const_key")
        else:
            karg, kb = self.keyarg(c, item=item)
            if karg is None:
                w.expect(fname + "(object, NULL, item)", f(obj.ptr, None, item.ptr), 0)
                return "add_object(NULL key)"
            was_const, was_ptr = item.key_const and item.key is not None, item.key_ptr
            alias_of_own_const = was_const and not isinstance(karg, (bytes, bytearray)) and karg == lib.shim_key(item.ptr)
            w.expect(fname, f(obj.ptr, karg, item.ptr), 1)
            item.key, item.key_const, item.key_ptr = kb, False, None
            if alias_of_own_const and (lib.shim_type(item.ptr) & T_CONST) and lib.shim_key(item.ptr) == karg:
                # added under the very constant it already carried: keeping the borrowed name (flag and pointer) instead of making an
                # owned copy of it is as good - the caller's constant outlives the item either way
                item.key_const, item.key_ptr = True, was_ptr
        w.roots.remove(item)
        item.parent = obj
        obj.children.append(item)
        self.touch(obj)
        self.note_append()
        if item.children:
            self.feat.add("move")
        return "add_object(%s)" % ("cs" if cs else "copy")

    def _make_ref(self, x):
        """model of create_reference(x)"""
        n = MNode(x.t, 0)
        n.is_ref = True
        n.num, n.vint = x.num, x.vint
        if x.t in "AO":
            n.ref_head = x.ref_head if x.is_ref else (x.children[0] if x.children else None)
            if n.ref_head is not None:
                n.ref_head.pins += 1
        elif x.t in "SR":
            if x.is_ref:
                n.ref_str_of = x.ref_str_of
                n.sval = x.sval
            else:
                n.ref_str_of = x
            if n.ref_str_of not in (None, "arena"):
                n.ref_str_of.pins += 1
        return n

    def op_add_ref(self, a, b, c, d):
        w, lib = self.w, self.lib
        to_obj = bool(d & 1)
        cont = pick(w.containers("O" if to_obj else "A"), a)
        if cont is None:
            return "skip"
        if b % 13 == 0:
            if to_obj:
                w.expect("AddItemReferenceToObject(object, key, NULL)", lib.cJSON_AddItemReferenceToObject(cont.ptr, b"k", None), 0)
            else:
                w.expect("AddItemReferenceToArray(array, NULL)", lib.cJSON_AddItemReferenceToArray(cont.ptr, None), 0)
            return "add_ref(NULL item)"
        cands = [x for x in self.live_nodes() if self.ref_ok(w.root_of(cont), x)]
        x = pick(cands, b)
        if x is None:
            return "skip"
        if to_obj:
            karg, kb = self.keyarg(c)
            if x.key is not None and c % 4 == 1:
                # the reference is filed under the referenced item's own name, passed as that item's key pointer: the library
                # must copy it (the item is free to drop or change its name while the reference lives on)
                karg, kb = lib.shim_key(x.ptr), x.key
                self.feat.add("alias_referenced_key")
            if karg is None:
                w.expect("AddItemReferenceToObject(object, NULL, item)", lib.cJSON_AddItemReferenceToObject(cont.ptr, None, x.ptr), 0)
                return "add_ref_object(NULL key)"
            w.expect("AddItemReferenceToObject", lib.cJSON_AddItemReferenceToObject(cont.ptr, karg, x.ptr), 1)
        else:
            w.expect("AddItemReferenceToArray", lib.cJSON_AddItemReferenceToArray(cont.ptr, x.ptr), 1)
        n = self._make_ref(x)
        if to_obj:
            n.key = kb
        kids = lib.children(cont.ptr)
        n.ptr = kids[-1] if kids else 0
        n.parent = cont
        cont.children.append(n)
        self.touch(cont)
        self.note_append()
        self.feat.add("reference")
        return "add_ref_%s(%s)" % ("object" if to_obj else "array", x.t)

    def op_add_helper(self, a, b, c, d):
        w, lib = self.w, self.lib
        obj = pick(w.containers("O"), a)
        if obj is None:
            return "skip"
        karg, kb = self.keyarg(c)
        k = b % 9
        v = NUM_POOL[d % len(NUM_POOL)]
        s = STR_POOL[d % len(STR_POOL)]
        calls = [
            ("AddNullToObject", lambda o, key: lib.cJSON_AddNullToObject(o, key), "n"),
            ("AddTrueToObject", lambda o, key: lib.cJSON_AddTrueToObject(o, key), "t"),
            ("AddFalseToObject", lambda o, key: lib.cJSON_AddFalseToObject(o, key), "f"),
            ("AddBoolToObject", lambda o, key: lib.cJSON_AddBoolToObject(o, key, (d & 1) and (1, 2, -1, 256, 1, 4)[(d >> 1) % 6]), "t" if d & 1 else "f"),
            ("AddNumberToObject", lambda o, key: lib.cJSON_AddNumberToObject(o, key, v), "N"),
            ("AddStringToObject", lambda o, key: lib.cJSON_AddStringToObject(o, key, s), "S"),
            ("AddRawToObject", lambda o, key: lib.cJSON_AddRawToObject(o, key, s), "R"),
            ("AddObjectToObject", lambda o, key: lib.cJSON_AddObjectToObject(o, key), "O"),
            ("AddArrayToObject", lambda o, key: lib.cJSON_AddArrayToObject(o, key), "A"),
        ]
        name, fn, t = calls[k]
        if a % 29 == 0:
            w.expect(name + "(NULL, key)", bool(fn(None, b"k")), False)
            return "add_helper(NULL object)"
        p = fn(obj.ptr, karg)
        if karg is None:
            w.expect(name + "(object, NULL)", bool(p), False)
            return "add_helper(NULL key)"
        if not p:
            raise Violation("%s returned NULL without an allocation failure" % name, key="return:" + name)
        n = MNode(t, p)
        n.key = kb
        if t == "N":
            n.num, n.vint = float(v), sat_int(float(v))
        if t in "SR":
            n.sval = model.c_bytes(s)
        n.parent = obj
        obj.children.append(n)
        kids = lib.children(obj.ptr)
        if not kids or kids[-1] != p:
            raise Violation("%s: returned pointer is not the last member of the object" % name, key="return:" + name)
        self.touch(obj)
        self.note_append()
        return "add_helper(%s)" % name

    # ------------------------------------------------------------ edit
    def op_insert(self, a, b, c, d):
        w, lib = self.w, self.lib
        arr = pick(w.containers("A"), a)
        if arr is None:
            return "skip"
        size = len(arr.children)
        index = (b % (size + 2)) - 1
        if c % 13 == 0:
            w.expect("InsertItemInArray(array, %d, NULL)" % index, lib.cJSON_InsertItemInArray(arr.ptr, index, None), 0)
            return "insert(NULL item)"
        if c % 17 == 0:
            self.feat.add("self_insert")
            w.expect("InsertItemInArray(array, %d, array) [size %d]" % (index, size), lib.cJSON_InsertItemInArray(arr.ptr, index, arr.ptr), 0)
            return "insert(self,index=%d,size=%d)" % (index, size)
        item = pick(self.insertable(arr), c)
        if item is None:
            return "skip"
        got = lib.cJSON_InsertItemInArray(arr.ptr, index, item.ptr)
        if index < 0:
            w.expect("InsertItemInArray(array, -1, item)", got, 0)
            return "insert(negative index)"
        w.expect("InsertItemInArray(array, %d, item) [size %d]" % (index, size), got, 1)
        w.roots.remove(item)
        item.parent = arr
        arr.children.insert(index, item)
        self.touch(arr, edit=(index < size))
        if index == size:
            self.note_append()
        return "insert(index=%d,size=%d)" % (index, size)

    def _detached(self, n, parent):
        w = self.w
        parent.children.remove(n)
        n.parent = None
        w.roots.append(n)
        if len(w.roots) > MAX_ROOTS + 2:
            w.delete_root(n)

    def op_detach_ptr(self, a, b, c, d):
        w, lib = self.w, self.lib
        cont = pick([x for x in w.containers() if x.children], a)
        if cont is None:
            return "skip"
        if b % 13 == 0:
            w.expect("DetachItemViaPointer(parent, NULL)", bool(lib.cJSON_DetachItemViaPointer(cont.ptr, None)), False)
            return "detach_ptr(NULL)"
        ch = cont.children[b % len(cont.children)]
        got = lib.cJSON_DetachItemViaPointer(cont.ptr, ch.ptr)
        w.expect("DetachItemViaPointer", got, ch.ptr)
        size = len(cont.children)
        self._detached(ch, cont)
        self.touch(cont, edit=size >= 2)
        return "detach_ptr(pos=%d,size=%d)" % (b % size, size)

    def op_detach_idx(self, a, b, c, d):
        w, lib = self.w, self.lib
        arr = pick(w.containers("A"), a)
        if arr is None:
            return "skip"
        size = len(arr.children)
        index = (b % (size + 3)) - 1
        delete = bool(c & 1)
        target = arr.children[index] if 0 <= index < size else None
        if delete:
            lib.cJSON_DeleteItemFromArray(arr.ptr, index)
            if target is not None:
                arr.children.remove(target)
                w.forget(target)
        else:
            got = lib.cJSON_DetachItemFromArray(arr.ptr, index)
            w.expect("DetachItemFromArray(array, %d) [size %d]" % (index, size), got, target.ptr if target else None)
            if target is not None:
                self._detached(target, arr)
        if target is not None:
            self.touch(arr, edit=size >= 2)
        return "%s_idx(index=%d,size=%d)" % ("delete" if delete else "detach", index, size)

    def op_detach_key(self, a, b, c, d):
        w, lib = self.w, self.lib
        obj = pick(w.containers("O"), a)
        if obj is None:
            return "skip"
        cs = bool(d & 1)
        delete = bool(d & 2)
        member = pick(obj.children, b)
        karg, kb = self.keyarg(c, member=member)
        size = len(obj.children)
        if karg is None:
            f = (lib.cJSON_DetachItemFromObjectCaseSensitive if cs else lib.cJSON_DetachItemFromObject)
            w.expect("DetachItemFromObject(object, NULL)", bool(f(obj.ptr, None)), False)
            return "detach_key(NULL key)"
        if cs and any(ch.key is None for ch in obj.children):
            # a case-sensitive search in an object that holds a name-less member (a copy of an object view over array
            # elements): whether the search stops there or steps over it is not specified - no such call is made
            return "skip"
        target = self.find_key(obj, kb, cs)
        if delete:
            (lib.cJSON_DeleteItemFromObjectCaseSensitive if cs else lib.cJSON_DeleteItemFromObject)(obj.ptr, karg)
            if target is not None:
                obj.children.remove(target)
                w.forget(target)
        else:
            got = (lib.cJSON_DetachItemFromObjectCaseSensitive if cs else lib.cJSON_DetachItemFromObject)(obj.ptr, karg)
            w.expect("DetachItemFromObject%s(%r)" % ("CaseSensitive" if cs else "", kb), got, target.ptr if target else None)
            if target is not None:
                self._detached(target, obj)
        if target is not None:
            self.touch(obj, edit=size >= 2)
        return "%s_key(%r,cs=%d,found=%d)" % ("delete" if delete else "detach", kb, cs, target is not None)

    def _replace(self, cont, old, repl):
        w = self.w
        i = cont.children.index(old)
        cont.children[i] = repl
        old.parent = None
        w.forget(old)
        w.roots.remove(repl)
        repl.parent = cont

    def op_replace_ptr(self, a, b, c, d):
        w, lib = self.w, self.lib
        cont = pick([x for x in w.containers() if x.children], a)
        if cont is None:
            return "skip"
        old = cont.children[b % len(cont.children)]
        by_index = bool(d & 1) and cont.t == "A"
        size = len(cont.children)
        if c % 11 == 0 and not by_index:
            # replacing an item by itself: the result flag is not specified by the property, the tree must stay as it is
            lib.cJSON_ReplaceItemViaPointer(cont.ptr, old.ptr, old.ptr)
            return "replace_ptr(same item)"
        if c % 13 == 0:
            w.expect("ReplaceItemViaPointer(parent, item, NULL)", lib.cJSON_ReplaceItemViaPointer(cont.ptr, old.ptr, None), 0)
            return "replace_ptr(NULL replacement)"
        cands = [r for r in self.insertable(cont) if cont.t == "A" or r.key is not None]
        repl = pick(cands, c)
        if repl is None:
            return "skip"
        if by_index:
            index = (b % (size + 3)) - 1
            got = lib.cJSON_ReplaceItemInArray(cont.ptr, index, repl.ptr)
            if not (0 <= index < size):
                w.expect("ReplaceItemInArray(array, %d, item) [size %d]" % (index, size), got, 0)
                return "replace_idx(out of range)"
            old = cont.children[index]
            w.expect("ReplaceItemInArray(array, %d, item) [size %d]" % (index, size), got, 1)
        else:
            w.expect("ReplaceItemViaPointer", lib.cJSON_ReplaceItemViaPointer(cont.ptr, old.ptr, repl.ptr), 1)
        self._replace(cont, old, repl)
        self.touch(cont, edit=size >= 2)
        return "replace_%s(size=%d)" % ("idx" if by_index else "ptr", size)

    def op_replace_key(self, a, b, c, d):
        w, lib = self.w, self.lib
        obj = pick(w.containers("O"), a)
        if obj is None:
            return "skip"
        cs = bool(d & 1)
        f = lib.cJSON_ReplaceItemInObjectCaseSensitive if cs else lib.cJSON_ReplaceItemInObject
        fname = "ReplaceItemInObject" + ("CaseSensitive" if cs else "")
        repl = pick(self.insertable(obj), b)
        if repl is None:
            return "skip"
        if b % 13 == 0:
            w.expect(fname + "(object, key, NULL)", f(obj.ptr, b"k", None), 0)
            return "replace_key(NULL replacement)"
        member = pick(obj.children, d >> 2)
        karg, kb = self.keyarg(c, item=repl, member=member)
        if karg is None:
            w.expect(fname + "(object, NULL, item)", f(obj.ptr, None, repl.ptr), 0)
            return "replace_key(NULL key)"
        if cs and any(ch.key is None for ch in obj.children):
            return "skip"
        target = self.find_key(obj, kb, cs)
        size = len(obj.children)
        old_key = (repl.key, repl.key_const, repl.key_ptr)
        got = f(obj.ptr, karg, repl.ptr)
        w.expect("%s(%r) [match=%s]" % (fname, kb, target is not None), got, 1 if target is not None else 0)
        if target is not None:
            repl.key, repl.key_const, repl.key_ptr = kb, False, None
        else:
            # refused: the object must be unchanged; whether the rejected replacement (still the caller's) keeps its old name
            # or already carries the requested one is not specified - both are accepted, the model follows the library
            kp = lib.shim_key(repl.ptr)
            actual = ctypes.string_at(kp) if kp else None
            if actual == old_key[0] and (old_key[0] is None or bool(lib.shim_type(repl.ptr) & 512) == bool(old_key[1])):
                repl.key, repl.key_const, repl.key_ptr = old_key
            else:
                repl.key, repl.key_const, repl.key_ptr = kb, False, None
        if target is not None:
            self._replace(obj, target, repl)
            self.touch(obj, edit=size >= 2)
        return "replace_key(%r,cs=%d,found=%d)" % (kb, cs, target is not None)

    def op_set_number(self, a, b, c, d):
        w, lib = self.w, self.lib
        n = pick([x for x in w.all_nodes() if x.t == "N" and not x.is_ref], a)
        if n is None:
            return "skip"
        v = NUM_POOL[b % len(NUM_POOL)]
        got = lib.shim_set_number_value(n.ptr, v)
        w.expect("SetNumberValue", model.dbits(got), model.dbits(float(v)))
        n.num, n.vint = float(v), sat_int(float(v))
        return "set_number(%r)" % v

    def op_set_string(self, a, b, c, d):
        w, lib = self.w, self.lib
        n = pick([x for x in w.all_nodes() if x.t == "S" and not (x.is_ref and x.dangling)], a)
        if n is None:
            return "skip"
        s = STR_POOL[b % len(STR_POOL)] if b % 16 != 15 else LONG_STR_POOL[(b // 16) % len(LONG_STR_POOL)]
        sarg = s
        if c % 11 == 5:
            # the new text is the text of ANOTHER string item (a separate block, possibly a close neighbour in memory)
            others = [x for x in w.all_nodes() if x.t == "S" and x is not n and not x.is_ref and x.sval is not None]
            m = pick(others, d)
            if others and d & 1:
                # the item whose text block lies highest in memory (under packed placement: the most recently allocated one)
                m = max(others, key=lambda x: lib.shim_valuestring(x.ptr) or 0)
            if m is not None:
                if not n.is_ref and n.pins == 0 and len(n.sval) < len(m.sval) + 200 and d & 2:
                    # first make the destination long: its new block is then allocated AFTER the source's (a close upper neighbour
                    # under packed placement), and the copy below is a shortening in place
                    big = b"x" * 1000
                    if not lib.cJSON_SetValuestring(n.ptr, big):
                        raise Violation("SetValuestring returned NULL without an allocation failure", key="return:SetValuestring")
                    n.sval = big
                    self.feat.add("string_grown")
                s = m.sval
                sarg = lib.shim_valuestring(m.ptr)
                self.feat.add("set_string_from_other_item")
        if n.is_ref:
            w.expect("SetValuestring(reference string)", bool(lib.cJSON_SetValuestring(n.ptr, s)), False)
            return "set_string(on reference)"
        if c % 13 == 0:
            w.expect("SetValuestring(item, NULL)", bool(lib.cJSON_SetValuestring(n.ptr, None)), False)
            return "set_string(NULL)"
        old_ptr = lib.shim_valuestring(n.ptr)
        if c % 17 == 0:
            # the new value overlaps the old one (same bytes): refused or performed, the value is the same afterwards
            lib.cJSON_SetValuestring(n.ptr, old_ptr)
            return "set_string(overlap)"
        got = lib.cJSON_SetValuestring(n.ptr, sarg)
        if not got:
            raise Violation("SetValuestring returned NULL without an allocation failure", key="return:SetValuestring")
        if got != lib.shim_valuestring(n.ptr):
            raise Violation("SetValuestring does not return the item's valuestring", key="return:SetValuestring")
        if len(s) > len(n.sval):
            # reallocated: references borrowing the old block are stale from now on
            for x in w.all_nodes():
                if x.is_ref and x.ref_str_of is n and not x.dangling:
                    x.dangling = True
                    n.pins -= 1
            self.feat.add("string_grown")
        else:
            if got != old_ptr:
                raise Violation("SetValuestring with a shorter string moved the buffer", key="return:SetValuestring")
        n.sval = s
        return "set_string(%d bytes)" % len(s)

    def op_set_bool(self, a, b, c, d):
        w, lib = self.w, self.lib
        n = pick([x for x in w.all_nodes() if not (x.is_ref and x.dangling)], a)
        if n is None:
            return "skip"
        got = lib.shim_set_bool_value(n.ptr, (b & 1) and (1, 2, -1, 256, 1, 4)[(b >> 1) % 6])   # cJSON_bool is an int: any non-zero value is true
        if n.t in "tf":
            n.t = "t" if b & 1 else "f"
            if not got:
                raise Violation("SetBoolValue on a boolean returned cJSON_Invalid", key="return:SetBoolValue")
        else:
            w.expect("SetBoolValue(non-boolean)", got, 0)
        return "set_bool"

    # ------------------------------------------------------------ queries
    def op_query(self, a, b, c, d):
        w, lib = self.w, self.lib
        conts = [x for x in self.live_nodes() if x.t in "AO"]
        cont = pick(conts, a)
        if cont is None:
            return "skip"
        kids = w.ref_children(cont) if cont.is_ref else cont.children
        size = len(kids)
        w.expect("GetArraySize", lib.cJSON_GetArraySize(cont.ptr), size)
        index = (b % (size + 3)) - 1
        want = kids[index].ptr if 0 <= index < size else None
        w.expect("GetArrayItem(%d) [size %d]" % (index, size), lib.cJSON_GetArrayItem(cont.ptr, index), want)
        arr = (ctypes.c_size_t * (size + 2))()
        cnt = lib.shim_array_foreach_count(cont.ptr, arr, size + 2)
        w.expect("cJSON_ArrayForEach count", cnt, size)
        w.expect("cJSON_ArrayForEach order", list(arr[:size]), [k.ptr for k in kids])
        if cont.t == "O" and not cont.is_ref:
            member = pick(kids, c)
            _, kb = self.keyarg((c % 13) + 16 * (c // 13), member=member)
            if kb is not None:
                t_cs = self.find_key(cont, kb, True)
                t_ci = self.find_key(cont, kb, False)
                if not any(ch.key is None for ch in kids):
                    w.expect("GetObjectItemCaseSensitive(%r)" % kb, lib.cJSON_GetObjectItemCaseSensitive(cont.ptr, kb), t_cs.ptr if t_cs else None)
                w.expect("GetObjectItem(%r)" % kb, lib.cJSON_GetObjectItem(cont.ptr, kb), t_ci.ptr if t_ci else None)
                w.expect("HasObjectItem(%r)" % kb, lib.cJSON_HasObjectItem(cont.ptr, kb), 1 if t_ci else 0)
                if t_ci is not None and t_cs is not t_ci:
                    self.feat.add("case_variant_lookup")
        w.expect("GetArraySize(NULL)", lib.cJSON_GetArraySize(None), 0)
        return "query(size=%d)" % size

    # ------------------------------------------------------------ whole tree
    def op_delete(self, a, b, c, d):
        r = pick(self.w.roots, a)
        if r is None:
            return "skip"
        self.w.delete_root(r)
        return "delete(root)"

    def copy_model(self, x, recurse, top=True):
        """model of cJSON_Duplicate"""
        w = self.w
        n = MNode(x.t, 0)
        n.num, n.vint = x.num, x.vint
        if x.t in "SR":
            n.sval = model.c_bytes(w.string_view(x))
        n.key = x.key
        n.key_const = x.key_const and x.key is not None
        n.key_ptr = x.key_ptr
        if recurse and x.t in "AO":
            for c in (w.ref_children(x) if x.is_ref else x.children):
                cc = self.copy_model(c, True, False)
                cc.parent = n
                n.children.append(cc)
        return n

    def bind_ptrs(self, n, ptr, named=False):
        n.ptr = ptr
        if not named and n.key is not None and not self.lib.shim_key(ptr):
            # the name a copy carries where no name is needed (the copy itself, elements of arrays) is a stale one: whether
            # Duplicate reproduces it is nobody's promise.  If it is there it must be the right one (check_all).
            n.key = None
            n.key_const = False
            n.key_ptr = None
        kids = self.lib.children(ptr)
        if len(kids) != len(n.children):
            raise Violation("copy has %d children where the model has %d" % (len(kids), len(n.children)), key="dup-shape")
        for c, p in zip(n.children, kids):
            self.bind_ptrs(c, p, named=(n.t == "O"))

    def op_dup(self, a, b, c, d):
        w, lib = self.w, self.lib
        if not self._room():
            return "skip"
        cands = []
        for r in self.clean_roots():
            def rec(n):
                cands.append(n)
                if not n.is_ref:
                    for ch in n.children:
                        rec(ch)
            rec(r)
        x = pick(cands, a)
        if x is None:
            return "skip"
        recurse = 0 if b % 4 == 0 else 1
        p = lib.cJSON_Duplicate(x.ptr, recurse)
        if not p:
            raise Violation("Duplicate returned NULL without an allocation failure", key="return:Duplicate")
        n = self.copy_model(x, recurse)
        self.bind_ptrs(n, p)
        w.new_root(n)
        self.feat.add("dup")
        return "dup(recurse=%d,%s)" % (recurse, x.t)

    # ------------------------------------------------------------ C07 extras: parse / print / compare / minify
    PARSE_POOL = [
        ["O", [[b"a", ["L", "1"]], [b"b", ["A", [["t"], ["n"], ["S", b"x\n"]]]]]],
        ["A", [["L", "1.5e3"], ["S", b"\xc3\xa9"], ["O", []], ["A", []]]],
        ["S", b"top level string"],
        ["O", [[b"k", ["O", [[b"k", ["O", [[b"K", ["f"]]]]]]]], [b"k", ["L", "-0"]]]],
        ["A", [["A", [["A", [["L", "2147483648"]]]]]]],
    ]

    def op_parse(self, a, b, c, d):
        if not self._room():
            return "skip"
        import random
        w, lib = self.w, self.lib
        jv = self.PARSE_POOL[a % len(self.PARSE_POOL)]
        text = model.emit_text(jv, random.Random(b))
        if c % 5 == 0:
            # malformed: must leave nothing behind
            bad = text[:max(1, len(text) // 2)] + b"\\x"
            if c % 15 == 0:
                # a malformed token that is longer than any fixed scratch buffer: long runs of number characters, long literals, long escapes
                frag = [b"-" * 70, b"-" + b"e+" * 40, b"1" * 70 + b"e+-", b"-." + b"E" * 90, b"tru" + b"e" * 80, b"\"" + b"\\u00e9" * 40 + b"\\q\"",
                        b"\"" + b"\\uD83D\\uDE00" * 20, b"0." + b"0" * 80 + b".5"][d % 8]
                bad = text[:max(1, len(text) // 2)] + frag if d & 8 else b"[" + frag + b"]"
            mark = lib.ledger_serial()
            po = lib.parse(c % 4, bad + b"\x00", d & 1, 0, 0)
            if po.tree:
                lib.cJSON_Delete(po.tree)
            if lib.ledger_live_since(mark) != 0:
                raise Violation("a parse call left allocations behind", key="leak")
            return "parse(malformed)"
        po = lib.parse(c % 4, text + b"\x00", d & 1, 0, 0)
        if not po.tree:
            raise Violation("valid text rejected: %r" % text, key="parse-null")
        n = w.adopt_parsed(po.tree, jv)
        w.new_root(n)
        self.feat.add("parse")
        return "parse(%d bytes)" % len(text)

    def op_print(self, a, b, c, d):
        w, lib = self.w, self.lib
        r = pick(self.clean_roots(), a)
        if r is None:
            return "skip"
        k = b % 5
        if k == 0:
            t = lib.take_text(lib.cJSON_Print(r.ptr))
        elif k == 1:
            t = lib.take_text(lib.cJSON_PrintUnformatted(r.ptr))
        elif k == 2:
            t = lib.take_text(lib.cJSON_PrintBuffered(r.ptr, c % 300, d & 1))
        elif k == 3:
            n = c % 600
            buf = lib.guard_rw(None, n)
            ok = lib.cJSON_PrintPreallocated(r.ptr, buf, n, d & 1)
            t = ctypes.string_at(buf) if ok else b""
            bad = lib.guard_check(buf)
            lib.guard_release(buf)
            if bad:
                raise Violation("PrintPreallocated wrote before its buffer", key="prealloc-oob")
        else:
            # nodes inside a tree may be printed on their own
            nodes = []

            def rec(n):
                nodes.append(n)
                if not n.is_ref:
                    for ch in n.children:
                        rec(ch)
            rec(r)
            x = pick(nodes, c)
            t = lib.take_text(lib.cJSON_PrintUnformatted(x.ptr))
        if t is None:
            raise Violation("print returned NULL without an allocation failure", key="print-null")
        self.feat.add("print")
        if (k in (0, 1, 4) and len(t) > 256) or (k == 2 and len(t) > c % 300):
            self.feat.add("print_growth")
        return "print(variant=%d,%d bytes)" % (k, len(t))

    def op_compare(self, a, b, c, d):
        w, lib = self.w, self.lib
        cands = []
        for r in self.clean_roots():
            def rec(n):
                cands.append(n)
                if not n.is_ref:
                    for ch in n.children:
                        rec(ch)
            rec(r)
        x = pick(cands, a)
        y = pick(cands, b)
        if x is None:
            return "skip"
        lib.cJSON_Compare(x.ptr, y.ptr, c & 1)
        lib.cJSON_Compare(x.ptr, None, c & 1)
        return "compare"

    def op_minify(self, a, b, c, d):
        lib = self.lib
        texts = [b'{ "a" : [1, 2 , 3] , /* c */ "b" : "x y" } // end', b"[ 1 , 2 ]", b'"\\\\" ', b"/* open", b'{"a": "\\""}   ', b""]
        t = texts[a % len(texts)]
        buf = lib.guard_rw(t + b"\x00", len(t) + 1)
        lib.cJSON_Minify(buf)
        bad = lib.guard_check(buf)
        lib.guard_release(buf)
        if bad:
            raise Violation("Minify wrote before its buffer", key="minify-oob")
        return "minify"

    # ------------------------------------------------------------ C19: sorting and utilities that sort internally
    def plain_root(self, r):
        """no references and no key-less members of objects anywhere below r"""
        def rec(n, in_obj):
            if n.is_ref:
                return False
            if in_obj and n.key is None:
                return False
            return all(rec(c, n.t == "O") for c in n.children)
        return rec(r, False)

    def resync(self, n, what, must_sort=None):
        """the call may have reordered members: the library's order must be a permutation of the model's members
        (same nodes); adopt it. must_sort: None or (case_sensitive flag) for the object that was sorted explicitly."""
        lib = self.lib
        if n.is_ref:
            return
        if n.t in "AO":
            kids = lib.children(n.ptr)
            byptr = {}
            for c in n.children:
                byptr.setdefault(c.ptr, []).append(c)
            if sorted(kids) != sorted(c.ptr for c in n.children):
                raise Violation("%s: the members of a container are no longer the same nodes (%d before, %d after)" % (what, len(n.children), len(kids)),
                                key="sort-members")
            if n.t == "A" and kids != [c.ptr for c in n.children]:
                raise Violation("%s: the order of an array changed" % what, key="sort-array-order")
            n.children = [byptr[p].pop() for p in kids]
            for c in n.children:
                self.resync(c, what)

    def op_sort(self, a, b, c, d):
        w, lib = self.w, self.lib
        objs = [x for x in w.containers("O") if all(ch.key is not None for ch in x.children)]
        obj = pick(objs, a)
        if obj is None:
            return "skip"
        cs = bool(b & 1)
        before = [ch.key for ch in obj.children]
        keyf = (lambda k: k) if cs else model.fold
        already = all(keyf(before[i]) <= keyf(before[i + 1]) for i in range(len(before) - 1))
        (lib.cJSONUtils_SortObjectCaseSensitive if cs else lib.cJSONUtils_SortObject)(obj.ptr)
        self.resync(obj, "SortObject%s" % ("CaseSensitive" if cs else ""))
        keys = [ch.key for ch in obj.children]
        for i in range(len(keys) - 1):
            if keyf(keys[i]) > keyf(keys[i + 1]):
                raise Violation("SortObject%s: key %r comes before %r" % ("CaseSensitive" if cs else "", keys[i], keys[i + 1]), key="sort-order")
        # idempotence: a second sort leaves the key sequence unchanged (and the nodes, when keys are distinct under the comparison)
        order1 = lib.children(obj.ptr)
        (lib.cJSONUtils_SortObjectCaseSensitive if cs else lib.cJSONUtils_SortObject)(obj.ptr)
        order2 = lib.children(obj.ptr)
        self.resync(obj, "second SortObject")
        if [ch.key for ch in obj.children] != keys and [keyf(ch.key) for ch in obj.children] != [keyf(k) for k in keys]:
            raise Violation("sorting twice changes the key sequence", key="sort-idempotence")
        if len(set(keyf(k) for k in keys)) == len(keys) and order1 != order2:
            raise Violation("sorting twice changes the member order although keys are distinct", key="sort-idempotence")
        self.touch(obj, edit=True)
        self.feat.add("sort")
        if len(before) >= 3 and not already:
            self.feat.add("sort_unsorted>=3")
            self.sorted_unsorted = True
        return "sort(cs=%d,n=%d,%s)" % (cs, len(before), "already sorted" if already else "reordered")

    def op_util_sorting(self, a, b, c, d):
        """utility calls that sort internally: patch 'test', GeneratePatches, GenerateMergePatch"""
        w, lib = self.w, self.lib
        roots = [r for r in self.clean_roots() if self.plain_root(r)]
        r1 = pick(roots, a)
        r2 = pick(roots, b)
        if r1 is None:
            return "skip"
        k = c % 3
        cs = d & 1
        if k == 0:
            # [{"op":"test","path":"","value":<copy of r1>}]
            patch = lib.cJSON_CreateArray()
            op = lib.cJSON_CreateObject()
            lib.cJSON_AddItemToObject(op, b"op", lib.cJSON_CreateString(b"test"))
            lib.cJSON_AddItemToObject(op, b"path", lib.cJSON_CreateString(b""))
            value = lib.cJSON_Duplicate(r1.ptr, 1)
            how = (d >> 1) % 5
            if how:
                # the value tested against is not always an exact copy: an object (the root or the first nested one with two or more
                # members) loses its last members in sorted order / gains a member that sorts last / gets one value changed, so the
                # lock-step walk over the two sorted member lists ends in every possible way
                target = value
                if (d >> 4) & 1:
                    for kid in lib.children(value):
                        if (lib.shim_type(kid) & 0xFF) == 64 and len(lib.children(kid)) >= 2:
                            target = kid
                            break
                if (lib.shim_type(target) & 0xFF) == 64:
                    kids = [(ctypes.string_at(lib.shim_key(k)) if lib.shim_key(k) else b"", k) for k in lib.children(target)]
                    fold = (lambda x: x) if cs else model.fold
                    kids.sort(key=lambda t: fold(t[0]))
                    if how in (1, 2) and len(kids) >= 2:
                        for _, k in kids[-(1 if how == 1 else max(1, len(kids) // 2)):]:
                            lib.cJSON_Delete(lib.cJSON_DetachItemViaPointer(target, k))
                    elif how == 3:
                        lib.cJSON_AddItemToObject(target, b"~~~ sorts last", lib.cJSON_CreateNumber(1.0))
                    elif kids:
                        lib.cJSON_ReplaceItemViaPointer(target, kids[len(kids) // 2][1], lib.cJSON_CreateString(b"a changed value"))
                    self.feat.add("patch_test_against_near_copy")
            lib.cJSON_AddItemToObject(op, b"value", value)
            lib.cJSON_AddItemToArray(patch, op)
            (lib.cJSONUtils_ApplyPatchesCaseSensitive if cs else lib.cJSONUtils_ApplyPatches)(r1.ptr, patch)
            lib.cJSON_Delete(patch)
            self.resync(r1, "patch test")
            what = "patch_test"
        else:
            if r2 is None or r2 is r1:
                return "skip"
            if k == 1:
                p = (lib.cJSONUtils_GeneratePatchesCaseSensitive if cs else lib.cJSONUtils_GeneratePatches)(r1.ptr, r2.ptr)
                what = "generate_patches"
            else:
                p = (lib.cJSONUtils_GenerateMergePatchCaseSensitive if cs else lib.cJSONUtils_GenerateMergePatch)(r1.ptr, r2.ptr)
                what = "generate_merge_patch"
            if p:
                lib.cJSON_Delete(p)
            self.resync(r1, what)
            self.resync(r2, what)
        self.feat.add("util_sorting")
        self.sorted_unsorted = getattr(self, "sorted_unsorted", False) or any(x.t == "O" and len(x.children) >= 3 for x in w.all_nodes())
        return what

    # ------------------------------------------------------------ C14: utility calls, memory accounting only
    def op_utils(self, a, b, c, d):
        """cJSON_Utils entry points on plain trees; every returned block is released by the harness through cJSON_free/cJSON_Delete"""
        w, lib = self.w, self.lib
        roots = [r for r in self.clean_roots() if self.plain_root(r)]
        r1 = pick(roots, a)
        r2 = pick(roots, b)
        if r1 is None:
            return "skip"
        k = c % 7
        cs = d & 1
        if k == 0:
            nodes = []

            def rec(n):
                nodes.append(n)
                for ch in n.children:
                    rec(ch)
            rec(r1)
            x = pick(nodes, d >> 1)
            raw = lib.cJSONUtils_FindPointerFromObjectTo(r1.ptr, x.ptr)
            if not raw:
                # (these trees may hold duplicate keys and key-less members, for which pointer construction promises nothing;
                # what a pointer must look like is C15's matter - here only the memory accounting counts)
                self.feat.add("utils")
                return "utils_pointer(none)"
            text = ctypes.string_at(raw)
            got = (lib.cJSONUtils_GetPointerCaseSensitive if cs else lib.cJSONUtils_GetPointer)(r1.ptr, text)
            lib.cJSON_free(raw)
            self.feat.add("utils")
            return "utils_pointer(%r)" % text[:30]
        if r2 is None:
            return "skip"
        if k in (1, 2):
            p = (lib.cJSONUtils_GeneratePatchesCaseSensitive if cs else lib.cJSONUtils_GeneratePatches)(r1.ptr, r2.ptr)
            self.resync(r1, "GeneratePatches")
            if r2 is not r1:
                self.resync(r2, "GeneratePatches")
            if p and k == 2:
                dup = lib.cJSON_Duplicate(r1.ptr, 1)
                (lib.cJSONUtils_ApplyPatchesCaseSensitive if cs else lib.cJSONUtils_ApplyPatches)(dup, p)
                lib.cJSON_Delete(dup)
            if p:
                lib.cJSON_Delete(p)
            self.feat.add("utils")
            return "utils_patches(apply=%d)" % (k == 2)
        if k in (3, 4):
            p = (lib.cJSONUtils_GenerateMergePatchCaseSensitive if cs else lib.cJSONUtils_GenerateMergePatch)(r1.ptr, r2.ptr)
            self.resync(r1, "GenerateMergePatch")
            if r2 is not r1:
                self.resync(r2, "GenerateMergePatch")
            if p and k == 4:
                dup = lib.cJSON_Duplicate(r1.ptr, 1)
                res = (lib.cJSONUtils_MergePatchCaseSensitive if cs else lib.cJSONUtils_MergePatch)(dup, p)
                if res:
                    lib.cJSON_Delete(res)
            if p:
                lib.cJSON_Delete(p)
            self.feat.add("utils")
            return "utils_merge(apply=%d)" % (k == 4)
        if k == 5:
            patch = lib.cJSON_CreateArray()
            lib.cJSONUtils_AddPatchToArray(patch, b"add", b"/added~0by~1patch", r2.ptr)
            # a copy whose source exists and whose destination parent does not: must fail without touching the source
            kids = lib.children(r1.ptr)
            if kids and (lib.shim_type(r1.ptr) & 0xFF) == 64 and lib.shim_key(kids[0]):
                op = lib.cJSON_CreateObject()
                lib.cJSON_AddItemToObject(op, b"op", lib.cJSON_CreateString(b"copy"))
                key0 = ctypes.string_at(lib.shim_key(kids[0]))
                lib.cJSON_AddItemToObject(op, b"from", lib.cJSON_CreateString(b"/" + key0.replace(b"~", b"~0").replace(b"/", b"~1")))
                lib.cJSON_AddItemToObject(op, b"path", lib.cJSON_CreateString(b"/no such parent/child"))
                lib.cJSON_AddItemToArray(patch, op)
            # operations whose "op" / "path" / "from" strings are BORROWED (string references into read-only memory):
            # applying a patch may read them, never write or release them
            ar = dict((sv, pv) for pv, sv in w.arena)
            for opname, path, frm in ((b"add", b"/borrowed~1path~0", None), (b"replace", b"/a~1b", None), (b"copy", b"/k", b"/borrowed~1path~0"),
                                      (b"move", b"/m~0n", b"/k"), (b"test", b"/0", None), (b"remove", b"/a~1b/0", None))[(d >> 1) % 6:][:3]:
                op = lib.cJSON_CreateObject()
                lib.cJSON_AddItemToObject(op, b"op", lib.cJSON_CreateStringReference(ar[opname]))
                lib.cJSON_AddItemToObject(op, b"path", lib.cJSON_CreateStringReference(ar[path]))
                if frm is not None:
                    lib.cJSON_AddItemToObject(op, b"from", lib.cJSON_CreateStringReference(ar[frm]))
                if opname in (b"add", b"replace", b"test"):
                    lib.cJSON_AddItemToObject(op, b"value", lib.cJSON_CreateNumber(5.0))
                lib.cJSON_AddItemToArray(patch, op)
            lib.cJSONUtils_AddPatchToArray(patch, b"remove", b"/no such member", None)
            dup = lib.cJSON_Duplicate(r1.ptr, 1)
            lib.cJSONUtils_ApplyPatchesCaseSensitive(dup, patch)
            lib.cJSON_Delete(dup)
            lib.cJSON_Delete(patch)
            # operations derived from the document itself (the document may hold constant keys and borrowed strings): values
            # copied and moved between members and array positions, replaced and removed - on a copy of the document
            locs = []

            def walk_model(n, path, depth):
                locs.append((path, n))
                if depth > 3 or len(locs) > 24:
                    return
                for i, ch in enumerate(n.children[:6]):
                    step = (b"%d" % i) if n.t == "A" else ch.key.replace(b"~", b"~0").replace(b"/", b"~1")
                    walk_model(ch, path + b"/" + step, depth + 1)
            walk_model(r1, b"", 0)
            if len(locs) > 1:
                patch = lib.cJSON_CreateArray()
                sel = d >> 3
                for j in range(1 + sel % 3):
                    src_path, src = locs[1 + (sel >> (2 + 3 * j)) % (len(locs) - 1)]
                    conts = [(pth, n) for pth, n in locs if n.t in "AO"]
                    dst_path, dst = conts[(sel >> (5 + 3 * j)) % len(conts)]
                    tail = (b"/-", b"/0", b"/1")[(sel >> j) % 3] if dst.t == "A" else (b"/moved here", b"/" + KEY_POOL[(sel >> j) % len(KEY_POOL)].replace(b"~", b"~0").replace(b"/", b"~1"))[(sel >> j) & 1]
                    if dst.t == "O" and dst.children and (sel >> (7 + j)) % 3 == 0:
                        # the name of an existing member, as it is or in another letter case (the same member for the case-insensitive
                        # entry point, a new one for the case-sensitive one): the old value is replaced - and released
                        ek = dst.children[(sel >> 9) % len(dst.children)].key
                        ek = ek.swapcase() if (sel >> 11) & 1 else ek
                        tail = b"/" + ek.replace(b"~", b"~0").replace(b"/", b"~1")
                        self.feat.add("utils_patch_overwrites_member")
                    opname = (b"copy", b"move", b"copy", b"replace", b"remove", b"add", b"test")[(sel >> (1 + 2 * j)) % 7]
                    op = lib.cJSON_CreateObject()
                    lib.cJSON_AddItemToObject(op, b"op", lib.cJSON_CreateString(opname))
                    if opname in (b"copy", b"move"):
                        lib.cJSON_AddItemToObject(op, b"from", lib.cJSON_CreateString(src_path))
                        lib.cJSON_AddItemToObject(op, b"path", lib.cJSON_CreateString(dst_path + tail))
                    elif opname in (b"replace", b"remove", b"test"):
                        lib.cJSON_AddItemToObject(op, b"path", lib.cJSON_CreateString(src_path))
                    else:
                        lib.cJSON_AddItemToObject(op, b"path", lib.cJSON_CreateString(dst_path + tail))
                    if opname in (b"replace", b"add", b"test"):
                        # the value is a copy of a piece of the other document: it may carry constant keys as well
                        lib.cJSON_AddItemToObject(op, b"value", lib.cJSON_Duplicate(r2.ptr, 1))
                    lib.cJSON_AddItemToArray(patch, op)
                dup = lib.cJSON_Duplicate(r1.ptr, 1)
                (lib.cJSONUtils_ApplyPatchesCaseSensitive if cs else lib.cJSONUtils_ApplyPatches)(dup, patch)
                lib.cJSON_Delete(dup)
                lib.cJSON_Delete(patch)
                self.feat.add("utils_document_derived_patch")
            # a document that holds REFERENCES to values owned elsewhere (a whole tree, a string in caller memory): patches that
            # replace, remove, copy or move those members - never edit through them - must release the reference nodes only
            if (d >> 2) % 3 == 0:
                holder = lib.cJSON_CreateObject()
                lib.cJSON_AddItemReferenceToObject(holder, b"tree", r2.ptr)
                lib.cJSON_AddItemToObject(holder, b"text", lib.cJSON_CreateStringReference(ar[b"/borrowed~1path~0"]))
                lib.cJSON_AddItemToObjectCS(holder, ar[b"/k"], lib.cJSON_CreateArray())
                lib.cJSON_AddItemReferenceToArray(lib.cJSON_GetObjectItem(holder, b"/k"), r2.ptr)
                lib.cJSON_AddItemToObject(holder, b"own", lib.cJSON_CreateNumber(2.0))
                which = (d >> 5) % 4
                if which < 2:
                    mp = lib.cJSON_CreateObject()
                    inner = lib.cJSON_CreateObject()
                    lib.cJSON_AddItemToObject(inner, b"fresh", lib.cJSON_CreateTrue())
                    # (an object patch value merges INTO an object target - that would edit through the reference; every other
                    # kind of target is thrown away and replaced)
                    if which == 0 and r2.t == "O":
                        lib.cJSON_AddItemToObject(mp, b"tree", lib.cJSON_CreateString(b"replaces the reference"))
                        lib.cJSON_AddItemToObject(mp, b"text", inner)
                    else:
                        lib.cJSON_AddItemToObject(mp, b"tree" if which == 0 else b"text", inner)
                    lib.cJSON_AddItemToObject(mp, b"/k", lib.cJSON_CreateNull() if d & 64 else lib.cJSON_Duplicate(inner, 1))
                    res = (lib.cJSONUtils_MergePatchCaseSensitive if cs else lib.cJSONUtils_MergePatch)(holder, mp)
                    lib.cJSON_Delete(mp)
                    lib.cJSON_Delete(res)
                else:
                    patch = lib.cJSON_CreateArray()
                    for opname, path, frm in (((b"replace", b"/tree", None), (b"move", b"/~1k/-", b"/text"), (b"remove", b"/~1k/0", None)) if which == 2 else
                                              ((b"copy", b"/~1k/0", b"/tree"), (b"remove", b"/tree", None), (b"move", b"/own", b"/~1k"))):
                        op = lib.cJSON_CreateObject()
                        lib.cJSON_AddItemToObject(op, b"op", lib.cJSON_CreateString(opname))
                        lib.cJSON_AddItemToObject(op, b"path", lib.cJSON_CreateString(path))
                        if frm is not None:
                            lib.cJSON_AddItemToObject(op, b"from", lib.cJSON_CreateString(frm))
                        if opname == b"replace":
                            lib.cJSON_AddItemToObject(op, b"value", lib.cJSON_CreateString(b"replacement"))
                        lib.cJSON_AddItemToArray(patch, op)
                    (lib.cJSONUtils_ApplyPatchesCaseSensitive if cs else lib.cJSONUtils_ApplyPatches)(holder, patch)
                    lib.cJSON_Delete(patch)
                    lib.cJSON_Delete(holder)
                self.feat.add("utils_on_reference_holder")
            # a value moved (or copied) to a place inside itself, the destination spelt in another letter case than the source:
            # for the case-insensitive entry point both name the same member.  Whatever the verdict, nothing may be lost.
            if kids and (lib.shim_type(r1.ptr) & 0xFF) == 64:
                for kid in kids[:6]:
                    kp = lib.shim_key(kid)
                    kt = lib.shim_type(kid) & 0xFF
                    if not kp or kt not in (32, 64):
                        continue
                    key = ctypes.string_at(kp)
                    esc = key.replace(b"~", b"~0").replace(b"/", b"~1")
                    if esc.swapcase() == esc:
                        continue
                    tails = ([b"/-", b"/0"] if kt == 32 else [b"/inside", b"/" + esc])
                    grand = lib.children(kid)
                    if grand and (lib.shim_type(grand[0]) & 0xFF) in (32, 64):
                        gk = lib.shim_key(grand[0])
                        first = (ctypes.string_at(gk).replace(b"~", b"~0").replace(b"/", b"~1") if gk else b"") if kt == 64 else b"0"
                        tails.append(b"/" + first + (b"/-" if (lib.shim_type(grand[0]) & 0xFF) == 32 else b"/deeper"))
                    patch = lib.cJSON_CreateArray()
                    op = lib.cJSON_CreateObject()
                    lib.cJSON_AddItemToObject(op, b"op", lib.cJSON_CreateString(b"move" if (d >> 4) % 3 else b"copy"))
                    lib.cJSON_AddItemToObject(op, b"from", lib.cJSON_CreateString(b"/" + esc))
                    lib.cJSON_AddItemToObject(op, b"path", lib.cJSON_CreateString(b"/" + esc.swapcase() + tails[(d >> 6) % len(tails)]))
                    lib.cJSON_AddItemToArray(patch, op)
                    dup = lib.cJSON_Duplicate(r1.ptr, 1)
                    lib.cJSONUtils_ApplyPatches(dup, patch)
                    lib.cJSON_Delete(dup)
                    lib.cJSON_Delete(patch)
                    self.feat.add("utils_move_into_itself")
                    break
            self.feat.add("utils")
            return "utils_add_patch_to_array"
        dup = lib.cJSON_Duplicate(r1.ptr, 1)
        if (d >> 1) % 6 == 5:
            # a patch value nested deeper than cJSON_Duplicate copies: the merge is refused part-way; everything must still be
            # released exactly once, through the installed hooks
            patch = lib.cJSON_CreateObject()
            inner = lib.cJSON_CreateObject()
            lib.cJSON_AddItemToObject(inner, b"x", lib.shim_make_chain(lib.circular_limit + 3, (d >> 4) % 8, 1, 0))
            kids = lib.children(dup)
            key0 = ctypes.string_at(lib.shim_key(kids[0])) if kids and (lib.shim_type(dup) & 0xFF) == 64 and lib.shim_key(kids[0]) else b"k"
            lib.cJSON_AddItemToObject(patch, b"first", lib.cJSON_CreateTrue())
            lib.cJSON_AddItemToObject(patch, key0, inner)
            res = (lib.cJSONUtils_MergePatchCaseSensitive if cs else lib.cJSONUtils_MergePatch)(dup, patch)
            if res:
                lib.cJSON_Delete(res)
            lib.cJSON_Delete(patch)
            self.feat.add("utils")
            return "utils_merge_apply(value too deep to copy)"
        res = (lib.cJSONUtils_MergePatchCaseSensitive if cs else lib.cJSONUtils_MergePatch)(dup, r2.ptr)
        if res:
            lib.cJSON_Delete(res)
        self.feat.add("utils")
        return "utils_merge_apply"
