"""C02 - valid JSON text is accepted and decoded to exactly the value it denotes."""
import random

from hypothesis import strategies as st

from .. import gens, model
from ..core import Prop, Violation
from ..lib import flag_names

BOM = b"\xef\xbb\xbf"

# (entry, terminator appended, require_null_terminated, want_end)
VARIANTS = [
    (0, True, 0, 0),
    (1, True, 0, 1),
    (1, True, 1, 1),
    (1, True, 1, 0),
    (2, False, 0, 0),
    (2, True, 0, 0),
    (3, False, 0, 1),
    (3, True, 1, 1),
    (3, True, 0, 0),
]


class C02(Prop):
    ID = "C02"
    RULE = ("cases: documents drawn from a recursive grammar (all scalar kinds, literals from a boundary pool and a "
            "literal grammar, strings over ASCII/control/2-,3-,4-byte code points, duplicate keys, chains up to "
            "CJSON_NESTING_LIMIT) rendered as RFC 8259 text with drawn whitespace, escape spelling, hex case, BOM and "
            "framing, then parsed through 9 entry-point/flag/terminator variants (each case a second time in its compact spelling, without a single blank); every document of up to two members over a few one-byte values and names (incl. the empty name), spelt compactly; plus an EXHAUSTIVE sweep in C of every BMP \\uXXXX escape "
            "(both hex cases, as value and as key) and of surrogate pairs (all 2^20 in the thorough tier; row boundaries and a 1/16 sample in "
            "the quick tier) against an independent UTF-8 encoder; non-trivial = the text contains at "
            "least one of: escape, non-ASCII byte, fraction/exponent, depth >= 2, duplicate key, BOM; distinct = by "
            "hash of the rendered text")
    ASSUMPTIONS = ["expected doubles come from Python float() (correctly rounded), independent of the C library's strtod",
                   "only the C locale exists in this sandbox"]
    REQUIRED_CLASSES = ["tiny_document", "compact_spelling", "long_string>=1000", "escape", "nonascii", "fraction_or_exponent", "depth>=2", "duplicate_key", "bom",
                        "depth=limit", "surrogate_pair", "escape_sweep_code_points", "wide_shallow>limit"]

    def budget(self, tier):
        return {"workers": 14, "examples": 1200 if tier == "quick" else 12000}

    def strategy(self, tier):
        leaves = gens.scalars_text(strings=gens.with_long(gens.utf8_strings()))
        keys = gens.with_long(st.one_of(gens.utf8_strings(6), gens.ascii_keys(3)), 120)
        docs = st.one_of(
            gens.documents(leaves, keys, max_leaves=24),
            gens.documents(leaves, keys, max_leaves=6),
            leaves,
            st.tuples(st.sampled_from(["[", "{", "[{", "{[", "[[{"]), st.sampled_from([-1, 0, 0]), leaves).map(
                lambda t: ["D", t[0], ["limit", t[1]], t[2]]),
            # shallow but with more containers in total than the nesting limit (a depth counter that leaks shows here)
            st.tuples(st.sampled_from([["O", []], ["A", []], ["O", [[b"k", ["A", []]]]], ["A", [["O", []]]]]), st.sampled_from([999, 1000, 1001, 1300, 2100]),
                      st.sampled_from([["A", [["A", [["O", [[b"deep", ["A", [["t"]]]]]]]]]], ["O", [[b"x", ["O", [[b"y", ["O", []]]]]]]]])).map(
                lambda t: ["A", [t[0]] * t[1] + [t[2]]]),
        )
        wsb = st.lists(st.sampled_from([b" ", b"\t", b"\n", b"\r"]), max_size=3).map(b"".join)
        return st.fixed_dictionaries({
            "jv": docs,
            "rseed": st.integers(0, 2 ** 32 - 1),
            "bom": gens.chance(4),
            "lead": wsb,
            "trail": wsb,
            "style": st.sampled_from([None, None, "raw", "u", "short"]),
        })

    def tiny_documents(self):
        """every document made of at most two members/elements out of a few one-byte values and names (including the empty name),
        spelt without blanks: texts of 1..20 bytes in which every kind of token is the last one before the end of the buffer"""
        vals = [["L", "0"], ["L", "7"], ["t"], ["n"], ["S", b""], ["S", b"s"], ["A", []], ["O", []], ["L", "-1"], ["L", "1e1"], ["f"]]
        names = [b"", b"k", b"ab"]
        docs = list(vals)
        for v in vals:
            docs.append(["A", [v]])
            for k in names:
                docs.append(["O", [[k, v]]])
        for v in vals[:6]:
            for w in vals[:6]:
                docs.append(["A", [v, w]])
                docs.append(["O", [[b"k", v], [b"", w]]])
                docs.append(["O", [[b"", v], [b"k", w]]])
        for v in vals[:4]:
            docs.append(["A", [["A", [v]]]])
            docs.append(["O", [[b"", ["O", [[b"", v]]]]]])
            docs.append(["A", [["O", [[b"", v]]]]])
        return docs

    def prelude(self, lib, stats, index, nworkers, tier):
        for i, jv in enumerate(self.tiny_documents()):
            if i % nworkers == index:
                text = model.emit_text(jv, random.Random(0), None, 0.0)
                stats.cls("tiny_document")
                stats.inner += 1
                try:
                    self.parse_all(lib, stats, text, model.expected_dump(jv), i)
                except Violation as v:
                    v.detail = {"case": {"kind": "doc", "jv": jv, "rseed": 0, "bom": False, "lead": b"", "trail": b"", "style": None, "tiny": True}}
                    raise
        """exhaustive over the BMP (both hex cases, as value and as key); surrogate pairs: all 2^20 in the thorough tier,
        row boundaries + 1/16 sample in the quick tier; partitioned over the workers"""
        case = {"kind": "escapes", "part": index, "nparts": nworkers, "all_pairs": 0 if tier == "quick" else 1}
        self.last_write(case)
        self.run_escapes(lib, stats, case)

    def run_escapes(self, lib, stats, case):
        import ctypes
        from ..lib import SweepOut
        so = SweepOut()
        lib.sweep_unicode_escapes(case["part"], case["nparts"], case["all_pairs"], ctypes.byref(so))
        stats.inner += int(so.iterations)
        stats.cls("escape_sweep_code_points", int(so.nontrivial))
        stats.enumerated_nontrivial += int(so.nontrivial)
        if so.code:
            raise Violation("\\u escape of U+%04X (%s hex, as %s): %s" % (so.a, "upper-case" if so.b else "lower-case", "key" if so.c else "value", so.msg.decode()),
                            key="escape:%d" % so.code, detail={"case": {"kind": "escapes", "part": so.a % case["nparts"], "nparts": case["nparts"], "all_pairs": 1}})

    def fix_depth(self, lib, jv):
        """deep chains are generated relative to the limit of the header under test"""
        if jv[0] == "D" and isinstance(jv[2], list):
            return ["D", jv[1], lib.nesting_limit + jv[2][1], jv[3]]
        return jv

    def render(self, lib, case):
        jv = self.fix_depth(lib, case["jv"])
        rnd = random.Random(case["rseed"])
        body = model.emit_text(jv, rnd, case.get("style"))
        text = (BOM if case["bom"] else b"") + case["lead"] + body + case["trail"]
        return jv, text

    def run_case(self, lib, case, stats):
        if case.get("kind") == "escapes":
            return self.run_escapes(lib, stats, case)
        jv, text = self.render(lib, case)
        want = model.expected_dump(jv)
        classes = set()
        if b"\\" in text:
            classes.add("escape")
        if b"\\ud" in text.lower():
            classes.add("surrogate_pair")
        if any(c >= 0x80 for c in text[3 if case["bom"] else 0:]):
            classes.add("nonascii")
        depth = model.depth_of(jv)
        if depth >= 2:
            classes.add("depth>=2")
        if depth == lib.nesting_limit:
            classes.add("depth=limit")
        if jv[0] == "A" and len(jv[1]) >= 999:
            classes.add("wide_shallow>limit")
        if case["bom"]:
            classes.add("bom")
        for n in model.walk_jv(jv):
            if (n[0] == "S" and len(n[1]) >= 1000) or (n[0] == "O" and any(len(k) >= 1000 for k, _ in n[1])):
                classes.add("long_string>=1000")
            if n[0] == "L" and any(c in n[1] for c in ".eE"):
                classes.add("fraction_or_exponent")
            if n[0] == "O":
                ks = [k for k, _ in n[1]]
                if len(set(ks)) != len(ks):
                    classes.add("duplicate_key")
        for c in classes:
            stats.cls(c)
        if len(text) - (3 if case["bom"] else 0) - len(case["lead"]) - len(case["trail"]) == 1:
            stats.cls("one_byte_value")
        if classes:
            stats.nontriv(text, {"text": text, "expected_dump": want[:200]})

        self.parse_all(lib, stats, text, want, case["rseed"])
        if not case.get("tiny") and model.count_nodes(jv) <= 40:
            # the same value without a single blank: every token ends where the next begins, the last one where the buffer ends
            compact = model.emit_text(jv, random.Random(case["rseed"]), case.get("style"), 0.0)
            if compact != text:
                stats.cls("compact_spelling")
                self.parse_all(lib, stats, compact, want, case["rseed"] + 1)

    def parse_all(self, lib, stats, text, want, rseed):
        for vi, (entry, term, rq, want_end) in enumerate(VARIANTS):
            data = text + (b"\x00" if term else b"")
            placement = (vi + rseed) & 1
            po = lib.parse(entry, data, placement, rq, want_end)
            stats.inner += 1
            name = "entry=%d terminator=%d require_null_terminated=%d" % (entry, term, rq)
            if not po.tree:
                raise Violation("valid text rejected (%s): %r" % (name, text[:200]),
                                key="rejected")
            got, flags, _, _ = lib.dump(po.tree)
            lib.cJSON_Delete(po.tree)
            if flags:
                raise Violation("parsed tree has structural flags %s (%s)" % (flag_names(flags), name), key="structure")
            if got != want:
                raise Violation("decoded value differs (%s) for %r: %s" % (name, text[:200], model.explain_dump_diff(got, want)),
                                key="value")
            if not po.input_intact:
                raise Violation("input modified by parse (%s)" % name, key="input-modified")
            if lib.ledger_live() != 0:
                raise Violation("blocks still allocated after parse+delete (%s)" % name, key="leak")
            s = lib.stats()
            if s.foreign_free or s.cross_free:
                raise Violation("foreign or double free during parse/delete (%s)" % name, key="free")

    def shrink_candidates(self, case):
        jv = case["jv"]
        out = []
        if jv[0] in "AO" and jv[1]:
            for i in range(len(jv[1])):
                out.append(dict(case, jv=[jv[0], jv[1][:i] + jv[1][i + 1:]]))
            for ch in jv[1]:
                out.append(dict(case, jv=ch if jv[0] == "A" else ch[1]))
        return out


PROP = C02()
