/* libFuzzer target for cJSONUtils_ApplyPatches[CaseSensitive] (C16 robustness):
 * byte 0 selects the variant; the rest is `document text` NUL `patch text`.  Both texts are parsed;
 * whatever the patch is, application must not crash or leak and the document must remain a sound tree. */
#include "fzcommon.h"
#include "cJSON_Utils.h"

static int inited = 0;

int LLVMFuzzerTestOneInput(const uint8_t *data, size_t size)
{
    size_t n1 = 0, n2 = 0;
    char *t1, *t2;
    cJSON *doc, *patch;
    int cs;
    if (!inited)
    {
        inited = 1;
        ledger_install(LG_BOTH);
    }
    fz_begin();
    if (size < 2)
    {
        return 0;
    }
    cs = data[0] & 1;
    data++;
    size--;
    while (n1 < size && data[n1] != 0)
    {
        n1++;
    }
    t1 = (char *)probe_malloc(n1 + 1);
    memcpy(t1, data, n1);
    t1[n1] = 0;
    if (n1 < size)
    {
        const uint8_t *rest = data + n1 + 1;
        size_t rs = size - n1 - 1;
        while (n2 < rs && rest[n2] != 0)
        {
            n2++;
        }
        t2 = (char *)probe_malloc(n2 + 1);
        memcpy(t2, rest, n2);
        t2[n2] = 0;
    }
    else
    {
        t2 = (char *)probe_malloc(1);
        t2[0] = 0;
    }
    ledger_reset_counters();
    doc = cJSON_Parse(t1);
    patch = cJSON_Parse(t2);
    if (doc != NULL && patch != NULL)
    {
        int status = cs ? cJSONUtils_ApplyPatchesCaseSensitive(doc, patch) : cJSONUtils_ApplyPatches(doc, patch);
        size_t nodes = 0, depth = 0;
        unsigned fl = tree_walk(doc, 1, 1, &nodes, &depth);
        fz_class(status == 0 ? "status_zero" : "status_nonzero");
        if (cJSON_IsArray(patch) && patch->child != NULL)
        {
            fz_nontrivial(data - 1, size + 1);
        }
        if (fl & ~WF_BAD_TYPE)
        {
            fz_fail("C16: document has structural defects after patch application");
        }
        if (tree_walk(patch, 1, 1, &nodes, &depth) != 0)
        {
            fz_fail("C16: patch tree has structural defects after application");
        }
        if (fl == 0)
        {
            char *p = cJSON_PrintUnformatted(doc);
            if (p == NULL)
            {
                fz_fail("C16: document cannot be printed after patch application");
            }
            cJSON_free(p);
        }
    }
    else
    {
        fz_class("unparsable");
    }
    cJSON_Delete(doc);
    cJSON_Delete(patch);
    if (ledger_live() != 0)
    {
        fz_fail("C16: blocks still allocated after deleting document and patch");
    }
    {
        ledger_stats_t st;
        ledger_get(&st);
        if (st.foreign_free != 0 || st.cross_free != 0)
        {
            fz_fail("C16: foreign or double free");
        }
    }
    probe_free(t1);
    probe_free(t2);
    return 0;
}
