"""C05 - printed text is strict JSON and all print variants agree."""
import json
import math
import random
import re

from hypothesis import strategies as st

from .. import gens, model, printing
from ..core import Prop, Violation
from ..lib import RC_STRICT, RC_NAMES, LG_BOTH, LG_DEFAULT

INT_RE = re.compile(rb"\A-?(0|[1-9][0-9]*)\Z")


class Reject(Exception):
    pass


def _reject_constant(name):
    raise Reject("non-finite constant %s" % name)


def strict_decode(text):
    """independent strict decoder: Python's json with NaN/Infinity rejected, duplicates kept, literals recorded.
    returns (jv, [number literals in document order])"""
    literals = []

    def pnum(s):
        literals.append(s)
        return _Num(s)

    # json returns python lists for arrays; objects come through `pairs`; post-process into JV
    raw = json.loads(text.decode("utf-8"), parse_int=pnum, parse_float=pnum, parse_constant=_reject_constant,
                     object_pairs_hook=lambda p: _Obj(p))
    return to_jv(raw), literals


class _Num:
    def __init__(self, lit):
        self.lit = lit


class _Obj:
    def __init__(self, pairs):
        self.pairs = pairs


def to_jv(v):
    if v is None:
        return ["n"]
    if v is True:
        return ["t"]
    if v is False:
        return ["f"]
    if isinstance(v, str):
        return ["S", v.encode("utf-8", "surrogatepass")]
    if isinstance(v, _Obj):
        return ["O", [[k.encode("utf-8", "surrogatepass"), to_jv(x)] for k, x in v.pairs]]
    if isinstance(v, _Num):
        return ["L", v.lit]
    if isinstance(v, list):
        return ["A", [to_jv(x) for x in v]]
    raise ValueError(repr(v))


def nullify_nonfinite(jv):
    t = jv[0]
    if t == "N":
        d = jv[1]
        return ["n"] if (d != d or math.isinf(d)) else jv
    if t == "A":
        return ["A", [nullify_nonfinite(x) for x in jv[1]]]
    if t == "O":
        return ["O", [[k, nullify_nonfinite(v)] for k, v in jv[1]]]
    return jv


def eq_ordered(a, b):
    """ordered equality with the C04 number tolerance; returns None or a reason"""
    ta, tb = a[0], b[0]
    if ta in "NL" or tb in "NL":
        if not (ta in "NL" and tb in "NL"):
            return "type differs (%s vs %s)" % (ta, tb)
        return printing.number_roundtrip_ok(model.num_value(a), model.num_value(b))
    if ta != tb:
        return "type differs (%s vs %s)" % (ta, tb)
    if ta == "S":
        return None if a[1] == b[1] else "string differs (%r vs %r)" % (a[1], b[1])
    if ta == "A":
        if len(a[1]) != len(b[1]):
            return "array length differs"
        for x, y in zip(a[1], b[1]):
            r = eq_ordered(x, y)
            if r:
                return r
    if ta == "O":
        if len(a[1]) != len(b[1]):
            return "object size differs"
        for (k1, x), (k2, y) in zip(a[1], b[1]):
            if k1 != k2:
                return "key differs (%r vs %r)" % (k1, k2)
            r = eq_ordered(x, y)
            if r:
                return r
    return None


class C05(Prop):
    ID = "C05"
    RULE = ("trees as in C04 but strings/keys valid UTF-8 (all code point classes, dense in escape-needing characters) and numbers "
            "additionally +-inf and NaN; printed through every variant and prebuffer size under both allocator configurations. Oracle: "
            "whole output classified STRICT by the independent recogniser AND accepted by Python's json in strict mode; decoded value "
            "equals the model (non-finite -> null); whitespace-stripping the formatted text (Python scanner) gives the unformatted text; "
            "buffered/preallocated output identical; integer-valued numbers within int range printed as -?(0|[1-9][0-9]*). "
            "non-trivial = container with >= 2 members, or a string needing an escape, or a non-integer number; distinct by tree hash")
    ASSUMPTIONS = ["only the C locale exists in this sandbox: the decimal-point substitution code is exercised with '.' only",
                   "Python's json (strict=True, constants rejected) and the recogniser are the independent strict parsers"]
    REQUIRED_CLASSES = ["nameless_member", "long_string>=1000", "ownership_flags_variant", "container>=2", "escape_needed", "non_integer_number", "non_finite_number", "int_range_integer", "control_char", "non_bmp", "depth>=17"]

    def budget(self, tier):
        return {"workers": 12, "examples": 3000 if tier == "quick" else 20000}

    def strategy(self, tier):
        numbers = st.one_of(gens.finite_doubles(), gens.finite_doubles(), gens.top_doubles(),
                            st.sampled_from([math.inf, -math.inf, math.nan]),
                            st.integers(-2 ** 31 - 2, 2 ** 31 + 2).map(float))
        strings = gens.with_long(st.one_of(gens.utf8_strings(10), gens.escapey_strings(), gens.utf8_strings(3)), 12)
        leaves = gens.scalars_built(strings=strings, numbers=numbers)
        keys = st.one_of(gens.utf8_strings(5), gens.ascii_keys(3), gens.escapey_strings(4))
        deep = st.tuples(st.sampled_from(["[", "{", "[{", "{[", "{{["]), st.sampled_from([15, 16, 17, 18, 31, 32, 33, 40, 64, 65, 128, 300]), leaves).map(
            lambda t: model.expand(["D", t[0], t[1], t[2]]))
        tree = st.one_of(gens.shaped_documents(leaves, keys, max_leaves=16, min_leaves=2),
                         gens.shaped_documents(leaves, keys, max_leaves=5),
                         leaves, deep)
        tree = gens.weighted((15, tree), (1, gens.long_string_documents(gens.shaped_documents(leaves, keys, max_leaves=3))))
        return st.fixed_dictionaries({"jv": tree, "rseed": st.integers(0, 2 ** 31)})

    def run_case(self, lib, case, stats):
        jv = case["jv"]
        classes = set()
        for n in model.walk_jv(jv):
            if (n[0] == "S" and len(n[1]) >= 1000) or (n[0] == "O" and any(len(k) >= 1000 for k, _ in n[1])):
                classes.add("long_string>=1000")
            if n[0] == "N":
                d = n[1]
                if d != d or math.isinf(d):
                    classes.add("non_finite_number")
                elif d != math.floor(d):
                    classes.add("non_integer_number")
                elif -2147483648 <= d <= 2147483647:
                    classes.add("int_range_integer")
            strs = []
            if n[0] == "S":
                strs.append(n[1])
            if n[0] == "O":
                strs += [k for k, _ in n[1]]
                if len(n[1]) >= 2:
                    classes.add("container>=2")
            if n[0] == "A" and len(n[1]) >= 2:
                classes.add("container>=2")
            for s in strs:
                if any(c < 0x20 or c in (0x22, 0x5C) for c in s):
                    classes.add("escape_needed")
                if any(c < 0x20 for c in s):
                    classes.add("control_char")
                if any(c >= 0xF0 for c in s):
                    classes.add("non_bmp")
        if model.depth_of(jv) >= 17:
            classes.add("depth>=17")
        for c in classes:
            stats.cls(c)
        if classes & {"container>=2", "escape_needed", "non_integer_number"}:
            stats.nontriv(jv, {"tree": jv})
        want = nullify_nonfinite(jv)
        texts_by_mode = []
        for mode in (LG_BOTH, LG_DEFAULT):
            printing.with_hooks(lib, mode)
            try:
                # the same value, plain or with ownership flags (constant keys, string references, reference / former-member root)
                variant = printing.ROOT_VARIANTS[case["rseed"] % len(printing.ROOT_VARIANTS)] if case["rseed"] % 2 else "plain"
                if case["rseed"] % 16 == 6:
                    variant = "nameless_member"
                import random
                rv = printing.RootVariant(lib, jv, variant, random.Random(case["rseed"]))
                want = nullify_nonfinite(rv.jv)
                if rv.variant != "plain":
                    stats.cls("ownership_flags_variant")
                if rv.variant == "nameless_member":
                    stats.cls("nameless_member")
                try:
                    texts = printing.print_all(lib, rv.root, stats)
                except Violation as v:
                    # a tree with a name-less member need not be printable at all (no verdict); when it is printed, the text is judged
                    if rv.variant == "nameless_member" and v.key in ("print-null", "prealloc-fail"):
                        stats.cls("nameless_member_not_printed")
                        return
                    raise
                finally:
                    rv.close()
                texts_by_mode.append(texts)
                if lib.ledger_live() != 0:
                    raise Violation("blocks left allocated after printing and deleting", key="leak")
            finally:
                if lib.ledger_live() == 0:
                    lib.ledger_install(LG_BOTH)
        if texts_by_mode[0] != texts_by_mode[1]:
            raise Violation("printed text depends on the allocator configuration", key="variant-disagree")
        texts = texts_by_mode[0]
        for fmt in (0, 1):
            T = texts[fmt]
            rc = lib.classify(T)
            if rc.cls != RC_STRICT or rc.value_end != len(T) and T[rc.value_end:].strip(b" \t\r\n") != b"":
                raise Violation("printed text is not a single strict RFC 8259 value (recogniser: %s, value ends at %d of %d): %r" % (
                    RC_NAMES[rc.cls], rc.value_end, len(T), T[:200]), key="not-strict")
            if rc.value_end != len(T):
                raise Violation("printed text has bytes after the value: %r" % T[-20:], key="not-strict")
            try:
                got, literals = strict_decode(T)
            except (Reject, ValueError, UnicodeDecodeError) as e:
                raise Violation("Python's strict json decoder rejects the printed text (%s): %r" % (e, T[:200]), key="not-strict")
            why = eq_ordered(want, got)
            if why:
                raise Violation("printed text decodes to a different value: %s; text %r" % (why, T[:200]), key="value")
            # integer formatting
            finite = [n for n in model.walk_jv(want) if n[0] == "N"]
            if len(finite) != len(literals):
                raise Violation("number of numeric literals differs from the number of finite numbers", key="value")
            for n, lit in zip(finite, literals):
                d = n[1]
                if d == math.floor(d) and -2147483648 <= d <= 2147483647:
                    if not INT_RE.match(lit.encode()):
                        raise Violation("integer-valued number %r printed as %r, not a plain decimal integer" % (d, lit), key="int-format")
                    if int(lit) != int(d):
                        raise Violation("integer-valued number %r printed as %r" % (d, lit), key="int-format")
        stripped = printing.strip_ws_outside_strings(texts[1])
        if stripped != texts[0]:
            raise Violation("formatted text minus whitespace outside strings != unformatted text: %r vs %r" % (stripped[:200], texts[0][:200]),
                            key="format-differs")


PROP = C05()
