#!/usr/bin/env python3
"""Entry point of every registered check.

  python3-vt check.py <ID> [--tier quick|thorough] [--replay FILE]

Environment: VERIF_SEED (int, default 1), VERIF_TIER (overrides --tier default),
VERIF_REPO (default /repo; used by the mutant self-test only).
Exit 0: property held on everything explored.  Exit 1 + `VIOLATION property=<id> replay=<path>`.
Exit 2: harness error (a broken check, never a verdict).
"""
import argparse
import os
import sys

VT = "/opt/veriftools/pyvenv/bin/python3"
if os.path.realpath(sys.executable) != os.path.realpath(VT) and os.path.exists(VT) and not os.environ.get("VERIF_NO_REEXEC"):
    try:
        import hypothesis  # noqa: F401
    except ImportError:
        os.execv(VT, [VT] + sys.argv)

sys.path.insert(0, os.path.dirname(os.path.abspath(__file__)))
os.chdir(os.path.dirname(os.path.abspath(__file__)))


def main():
    ap = argparse.ArgumentParser()
    ap.add_argument("prop")
    ap.add_argument("--tier", default=os.environ.get("VERIF_TIER") or "quick", choices=["quick", "thorough"])
    ap.add_argument("--replay", default=None)
    args = ap.parse_args()
    try:
        seed = int(os.environ.get("VERIF_SEED", "1"))
    except ValueError:
        seed = 1
    from verif.runner import Check
    chk = Check(args.prop.upper(), args.tier, seed)
    if args.replay:
        return chk.run_replay(args.replay)
    return chk.run()


if __name__ == "__main__":
    sys.exit(main())
