"""C17 - a generated patch transforms its source into its target."""
import copy
import random

from hypothesis import strategies as st

from .. import gens, model, printing, rfc
from ..core import Prop, Violation
from ..lib import flag_names
from .c12 import mutate
from .c15 import utils_documents, other_number
from .c16 import dump_to_jv

EDITS = ["identity", "permute", "value_moves", "value_moves", "key_case_in_array", "key_case_in_array", "string_change", "bool_flip", "type_change", "key_rename", "member_add", "member_drop", "element_add",
         "element_drop", "element_drop", "element_swap", "number_step", "key_case"]


def edit(jv, kind, rnd):
    if kind == "value_moves":
        # a value changes place inside its container: a member's value now sits under a sibling's name (that sibling's old value
        # is gone, the member itself too), or an array element moves to another index - "renames" a diff might try to detect
        out = copy.deepcopy(jv)
        sites = [n for n in model.walk_jv(out) if n[0] in "AO" and len(n[1]) >= 2]
        if not sites:
            return jv, False
        c = rnd.choice(sites)
        i, j = rnd.sample(range(len(c[1])), 2)
        if c[0] == "O":
            c[1][j][1] = c[1][i][1]
            if rnd.random() < 0.7:
                del c[1][i]
        else:
            v = c[1].pop(i)
            c[1].insert(j, v)
        return out, True
    if kind == "number_step":
        sites = [n for n in model.walk_jv(jv) if n[0] == "N"]
        if not sites:
            return jv, False
        out = copy.deepcopy(jv)
        sites = [n for n in model.walk_jv(out) if n[0] == "N"]
        n = rnd.choice(sites)
        n[1] = other_number(n[1], rnd)
        return out, True
    if kind == "key_case_in_array":
        # flip the case of one key of an object that sits (at any depth) below an array
        sites = []

        def rec(n, below_array):
            if n[0] == "O":
                if below_array:
                    for m in n[1]:
                        if m[0].swapcase() != m[0]:
                            sites.append((n, m))
                for _, v in n[1]:
                    rec(v, below_array)
            elif n[0] == "A":
                for v in n[1]:
                    rec(v, True)
        out = copy.deepcopy(jv)
        rec(out, False)
        if not sites:
            return jv, False
        obj, m = rnd.choice(sites)
        k = m[0]
        pos = [j for j, ch in enumerate(k) if (65 <= ch <= 90 or 97 <= ch <= 122)]
        j = rnd.choice(pos)
        newk = k[:j] + bytes([k[j] ^ 0x20]) + k[j + 1:]
        if any(mm[0] == newk for mm in obj[1]):
            return jv, False
        m[0] = newk
        return out, True
    out, ok = mutate(jv, kind, rnd)
    # the domain is documents with distinct keys per object: an edit that would create a duplicate key is dropped
    if ok and any(n[0] == "O" and len(set(k for k, _ in n[1])) != len(n[1]) for n in model.walk_jv(out)):
        return jv, False
    return out, ok


def sound_and_usable(lib, ptr, what):
    fl, _, _ = lib.walk(ptr, 1, 1)
    if fl:
        raise Violation("%s has structural defects %s afterwards" % (what, flag_names(fl)), key="structure:" + ",".join(flag_names(fl)))


def append_everywhere(lib, ptr, jv_before, what):
    """every container must still accept an append (the tail link is what a sort may break)"""
    def rec(p):
        t = lib.shim_type(p) & 0xFF
        if t == 32:
            n = lib.cJSON_GetArraySize(p)
            if not lib.cJSON_AddItemToArray(p, lib.cJSON_CreateNumber(777.0)) or lib.cJSON_GetArraySize(p) != n + 1:
                raise Violation("%s: appending to an array afterwards does not add the item" % what, key="append-lost")
            lib.cJSON_DeleteItemFromArray(p, n)
        elif t == 64:
            n = lib.cJSON_GetArraySize(p)
            if not lib.cJSON_AddItemToObject(p, b"appended afterwards", lib.cJSON_CreateNumber(777.0)) or lib.cJSON_GetArraySize(p) != n + 1:
                raise Violation("%s: appending to an object afterwards does not add the member" % what, key="append-lost")
            lib.cJSON_DeleteItemFromObjectCaseSensitive(p, b"appended afterwards")
        for k in lib.children(p):
            rec(k)
    rec(ptr)
    if not model.eq_set(dump_to_jv(lib, ptr), jv_before, True):
        raise Violation("%s: value changed by append+delete afterwards" % what, key="append-lost")


def grow_both(lib, ptr, jv, rnd, prob, count):
    """second-round edit of a utility's input through the core API: members whose keys sort first / in the middle / last are
    appended to objects, an element to arrays; jv (in the tree's current member order) is updated alongside"""
    if jv[0] == "O":
        for key in (b"\x01early", b"b2", b"\x7fzz late"):
            if rnd.random() < prob and all(k != key for k, _ in jv[1]):
                v = float(rnd.randint(1, 3))
                if not lib.cJSON_AddItemToObject(ptr, key, lib.cJSON_CreateNumber(v)):
                    raise Violation("AddItemToObject fails on an input of an earlier generation call", key="append-lost")
                jv[1].append([key, ["N", v]])
                count[0] += 1
    elif jv[0] == "A" and rnd.random() < prob / 2:
        lib.cJSON_AddItemToArray(ptr, lib.cJSON_CreateNumber(9.0))
        jv[1].append(["N", 9.0])
        count[0] += 1
    if jv[0] in "AO":
        for kp, ch in zip(lib.children(ptr), jv[1]):
            grow_both(lib, kp, ch if jv[0] == "A" else ch[1], rnd, prob, count)


class C17(Prop):
    ID = "C17"
    RULE = ("pairs (from, to) of documents with distinct keys per object (Utils alphabet incl. '/', '~', '~0', '~1', '', digits) and numbers on "
            "a 1/8 grid: to = from after 0-4 drawn edits (member/element add/drop/swap, rename, case flip, type/bool/string/number change, "
            "permutation) or an independent document; plus documents 998..1500 levels deep built through the API (equal, or differing only at the bottom). Oracle: GeneratePatchesCaseSensitive returns an array of objects with op in "
            "{add, remove, replace}, a syntactically valid path and 'value' exactly when needed; the Python RFC 6902 reference applied to "
            "from gives a document equal to to; the library applied to a duplicate of from returns 0 and gives to; the patch is empty iff "
            "from equals to; afterwards both inputs equal their originals as values, are structurally sound, and every container still "
            "accepts an append. non-trivial = pairs differing inside a nested container, or with a '/'/'~' key on the path of a "
            "difference, or an array shortened by >= 2; distinct by pair hash")
    ASSUMPTIONS = ["numbers are generated well separated so that tolerance equality and exact equality coincide"]
    REQUIRED_CLASSES = ["equal_pair", "nested_difference", "escaped_key_in_patch", "array_shortened>=2", "independent", "ownership_flags_variant", "path_length_sweep", "deep_documents", "second_generation_after_edits"]

    def budget(self, tier):
        return {"workers": 14, "examples": 1300 if tier == "quick" else 20000}

    def strategy(self, tier):
        main = st.fixed_dictionaries({"from": utils_documents(max_leaves=10, min_leaves=2), "other": utils_documents(max_leaves=8),
                                      "edits": st.lists(st.sampled_from(EDITS), max_size=4), "independent": gens.chance(6),
                                      "rseed": st.integers(0, 2 ** 31)})
        deep = st.fixed_dictionaries({"kind": st.just("deep"), "depth": st.sampled_from([998, 999, 1000, 1001, 1002, 1500]),
                                      "shape": st.sampled_from(["O", "A", "OA", "AO", "OOA"]),
                                      "what": st.sampled_from(["equal", "equal", "leaf_change", "add_at_bottom", "remove_at_bottom"])})
        return gens.weighted((59, main), (1, deep))

    def second_round(self, lib, pf, pt, rnd, stats):
        """history: the inputs of a generation (whose members it may have reordered) are edited through the core API -
        members are added whose keys sort first, in the middle and last - and a patch is generated again; it must be
        judged by the documents as they are now"""
        jf, jt = dump_to_jv(lib, pf), dump_to_jv(lib, pt)
        added = [0]

        def grow(p, jv, prob):
            if jv[0] == "O":
                for key in (b"\x01early", b"b2", b"\x7fzz late"):
                    if rnd.random() < prob and all(k != key for k, _ in jv[1]):
                        v = float(rnd.randint(1, 3))
                        if not lib.cJSON_AddItemToObject(p, key, lib.cJSON_CreateNumber(v)):
                            raise Violation("AddItemToObject fails on an input of an earlier patch generation", key="append-lost")
                        jv[1].append([key, ["N", v]])
                        added[0] += 1
            elif jv[0] == "A" and rnd.random() < prob / 2:
                lib.cJSON_AddItemToArray(p, lib.cJSON_CreateNumber(9.0))
                jv[1].append(["N", 9.0])
                added[0] += 1
            if jv[0] in "AO":
                for kp, ch in zip(lib.children(p), jv[1]):
                    grow(kp, ch if jv[0] == "A" else ch[1], prob)
        grow(pf, jf, 0.5)
        grow(pt, jt, 0.5)
        if not added[0]:
            return
        stats.cls("second_generation_after_edits")
        patch = lib.cJSONUtils_GeneratePatchesCaseSensitive(pf, pt)
        dup = None
        try:
            if not patch:
                raise Violation("second GeneratePatchesCaseSensitive returned NULL", key="null")
            pj = dump_to_jv(lib, patch)
            ctx = "(second generation, after appending members to the inputs of the first) from %s to %s patch %s" % (
                model.emit_text(jf)[:200], model.emit_text(jt)[:200], model.emit_text(pj)[:300])
            equal = model.eq_set(jf, jt, True)
            if pj[0] != "A" or equal != (len(pj[1]) == 0):
                raise Violation("patch is %s although the documents are %s: %s" % ("empty" if not pj[1] else "not empty", "equal" if equal else "different", ctx),
                                key="empty-iff-equal")
            try:
                ref = rfc.patch_apply(jf, pj)
            except rfc.PatchError as e:
                raise Violation("the generated patch does not apply to 'from' under RFC 6902 (%s): %s" % (e, ctx), key="ref-apply-fails")
            if not model.eq_set(ref, jt, True):
                raise Violation("the generated patch (reference evaluation) yields %s, not 'to': %s" % (model.emit_text(ref)[:200], ctx), key="ref-result")
            dup = lib.cJSON_Duplicate(pf, 1)
            status = lib.cJSONUtils_ApplyPatchesCaseSensitive(dup, patch)
            if status != 0 or not model.eq_set(dump_to_jv(lib, dup), jt, True):
                raise Violation("the library applying its own patch (status %d) does not yield 'to': %s" % (status, ctx), key="lib-result")
            for p, j, name in ((pf, jf, "'from'"), (pt, jt, "'to'")):
                sound_and_usable(lib, p, name)
                if not model.eq_set(dump_to_jv(lib, p), j, True):
                    raise Violation("%s changed in value during the second patch generation: %s" % (name, ctx), key="input-modified")
        finally:
            for p in (patch, dup):
                if p:
                    lib.cJSON_Delete(p)

    def run_deep(self, lib, stats, case):
        """documents nested as deep as (and deeper than) anything the parser produces, built through the API: equal ones
        (the patch must be empty) and ones that differ only at the bottom"""
        d, shape, what = case["depth"], case["shape"], case["what"]

        def chain(bottom):
            node = bottom
            for i in range(d, 0, -1):
                node = ["A", [node]] if shape[i % len(shape)] == "A" else ["O", [[b"n", node]]]
            return node
        base = ["O", [[b"keep", ["N", 1.0]], [b"drop", ["t"]]]]
        other = {"equal": base, "leaf_change": ["O", [[b"keep", ["N", 2.0]], [b"drop", ["t"]]]],
                 "add_at_bottom": ["O", base[1] + [[b"new", ["S", b"x"]]]], "remove_at_bottom": ["O", base[1][:1]]}[what]
        stats.cls("deep_documents")
        stats.nontriv(["deep", d, shape, what], {"depth": d, "shape": shape, "difference": what})
        self.run_case(lib, {"from": chain(base), "other": chain(copy.deepcopy(other)), "edits": [], "independent": True, "rseed": 1, "quiet": True, "deep": True}, stats)

    def prelude(self, lib, stats, index, nworkers, tier):
        """every length of the composed pointer from 1 to 300 bytes (add and remove, top level and nested, keys with and
        without characters that need escaping), partitioned over the workers"""
        for L in range(1, 301):
            if L % nworkers != index:
                continue
            for shape in range(8):
                case = {"kind": "pathlen", "len": L, "shape": shape}
                self.last_write(case)
                try:
                    self.run_pathlen(lib, stats, case)
                except Violation as v:
                    v.detail = {"case": case}
                    raise

    def run_pathlen(self, lib, stats, case):
        L, shape = case["len"], case["shape"]
        if shape >= 4:
            # the long key is COMMON to both documents (it is only walked through, never added or removed); keys made of characters
            # that need escaping are twice as long once escaped
            key = [b"/" * L, b"~" * L, (b"~/" * L)[:L], (b"ab/~" * L)[:L]][shape - 4]
            for inner_f, inner_t in ((["O", [[b"d", ["N", 1.0]], [b"x", ["N", 2.0]]]], ["O", [[b"x", ["N", 2.0]]]]),
                                     (["A", [["N", 1.0], ["N", 2.0]]], ["A", [["N", 1.0]]]),
                                     (["N", 1.0], ["N", 2.0])):
                frm, to = ["O", [[key, inner_f], [b"z", ["t"]]]], ["O", [[key, inner_t], [b"z", ["t"]]]]
                if L % 2:
                    frm, to = ["O", [[b"p", frm]]], ["O", [[b"p", to]]]
                self.run_case(lib, {"from": frm, "other": to, "edits": [], "independent": True, "rseed": 1, "quiet": True}, stats)
            stats.cls("path_length_sweep")
            stats.enumerated_nontrivial += 3
            return
        key = (b"k" * L) if shape < 2 else ((b"a/~" * L)[:L])
        inner_from = ["O", [[key, ["N", 1.0]], [b"x", ["N", 2.0]]]]
        inner_to = ["O", [[b"x", ["N", 2.0]]]]
        if shape % 2:
            inner_from, inner_to = ["O", [[b"p", inner_from]]], ["O", [[b"p", inner_to]]]
        for frm, to in ((inner_from, inner_to), (inner_to, inner_from)):
            self.run_case(lib, {"from": frm, "other": to, "edits": [], "independent": True, "rseed": 1, "quiet": True}, stats)
        stats.cls("path_length_sweep")
        stats.enumerated_nontrivial += 2

    def run_case(self, lib, case, stats):
        if case.get("kind") == "pathlen":
            return self.run_pathlen(lib, stats, case)
        if case.get("kind") == "deep":
            return self.run_deep(lib, stats, case)
        rnd = random.Random(case["rseed"])
        frm = case["from"]
        if case["independent"]:
            to = case["other"]
            stats.cls("independent")
        else:
            to = copy.deepcopy(frm)
            for e in case["edits"]:
                to, _ = edit(to, e, rnd)
        arena = printing.Arena(lib)
        if case["rseed"] % 3 == 0:
            pf = printing.build_flagged(lib, frm, arena, rnd)
            pt = printing.build_flagged(lib, to, arena, rnd)
            stats.cls("ownership_flags_variant")
        else:
            pf = printing.build_tree(lib, frm)
            pt = printing.build_tree(lib, to)
        patch = None
        dup = None
        try:
            patch = lib.cJSONUtils_GeneratePatchesCaseSensitive(pf, pt)
            stats.inner += 1
            if not patch:
                raise Violation("GeneratePatchesCaseSensitive returned NULL", key="null")
            pj = dump_to_jv(lib, patch)
            ptext = model.emit_text(pj)
            ctx = "from %s to %s patch %s" % (model.emit_text(frm)[:200], model.emit_text(to)[:200], ptext[:300])
            if pj[0] != "A":
                raise Violation("generated patch is not an array: " + ctx, key="shape")
            for op in pj[1]:
                if op[0] != "O":
                    raise Violation("patch element is not an object: " + ctx, key="shape")
                m = dict((k, v) for k, v in op[1])
                if len(m) != len(op[1]):
                    raise Violation("patch element has duplicate members: " + ctx, key="shape")
                if b"op" not in m or m[b"op"][0] != "S" or m[b"op"][1] not in (b"add", b"remove", b"replace", b"move", b"copy", b"test"):
                    raise Violation("patch element has no valid RFC 6902 op: " + ctx, key="shape")
                if b"path" not in m or m[b"path"][0] != "S":
                    raise Violation("patch element has no path string: " + ctx, key="shape")
                for member in (b"path", b"from"):
                    if member in m and m[member][0] == "S":
                        try:
                            rfc.ptr_tokens(m[member][1])
                        except rfc.PointerError as e:
                            raise Violation("patch %s %r is not a valid JSON pointer (%s): %s" % (member.decode(), m[member][1], e, ctx), key="path-syntax")
                if m[b"op"][1] in (b"add", b"replace", b"test") and b"value" not in m:
                    raise Violation("op %r without 'value': %s" % (m[b"op"][1], ctx), key="shape")
                if m[b"op"][1] in (b"move", b"copy") and (b"from" not in m or m[b"from"][0] != "S"):
                    raise Violation("op %r without a 'from' string: %s" % (m[b"op"][1], ctx), key="shape")
            equal = model.eq_set(frm, to, True)
            if equal != (len(pj[1]) == 0):
                raise Violation("patch is %s although the documents are %s: %s" % ("empty" if not pj[1] else "not empty", "equal" if equal else "different", ctx),
                                key="empty-iff-equal")
            try:
                ref = rfc.patch_apply(frm, pj)
            except rfc.PatchError as e:
                raise Violation("the generated patch does not apply to 'from' under RFC 6902 (%s): %s" % (e, ctx), key="ref-apply-fails")
            if not model.eq_set(ref, to, True):
                raise Violation("the generated patch (reference evaluation) yields %s, not 'to': %s" % (model.emit_text(ref)[:200], ctx), key="ref-result")
            # inputs keep their value and stay healthy
            for p, j, name in ((pf, frm, "'from'"), (pt, to, "'to'")):
                sound_and_usable(lib, p, name)
                if not model.eq_set(dump_to_jv(lib, p), j, True):
                    raise Violation("%s changed in value during patch generation: %s" % (name, ctx), key="input-modified")
                append_everywhere(lib, p, j, name)
            dup = lib.cJSON_Duplicate(pf, 1)
            status = lib.cJSONUtils_ApplyPatchesCaseSensitive(dup, patch)
            if status != 0:
                raise Violation("the library cannot apply its own patch (status %d): %s" % (status, ctx), key="lib-apply-fails")
            if not model.eq_set(dump_to_jv(lib, dup), to, True):
                raise Violation("the library applying its own patch yields %s: %s" % (model.emit_text(dump_to_jv(lib, dup))[:200], ctx), key="lib-result")
            sound_and_usable(lib, dup, "patched copy")
            # ... and to 'from' as it was BEFORE the generator sorted it (a fresh build in the original member order): the patch
            # addresses members by name, so the order they stand in cannot matter
            fresh = printing.build_tree(lib, frm)
            try:
                status = lib.cJSONUtils_ApplyPatchesCaseSensitive(fresh, patch)
                if status != 0 or not model.eq_set(dump_to_jv(lib, fresh), to, True):
                    raise Violation("the library applying its own patch to 'from' in its original member order (status %d) yields %s: %s" % (
                        status, model.emit_text(dump_to_jv(lib, fresh))[:200], ctx), key="lib-result")
            finally:
                lib.cJSON_Delete(fresh)
            # a document against ITSELF (the same object as both arguments): equal, so the patch is empty, and it is still intact
            selfp = lib.cJSONUtils_GeneratePatchesCaseSensitive(pt, pt)
            try:
                if not selfp or lib.cJSON_GetArraySize(selfp) != 0 or (lib.shim_type(selfp) & 0xFF) != 32:
                    raise Violation("the patch from a document to itself (one object passed twice) is not an empty array: " + ctx, key="empty-iff-equal")
            finally:
                if selfp:
                    lib.cJSON_Delete(selfp)
            sound_and_usable(lib, pt, "'to' after a self-diff")
            if not model.eq_set(dump_to_jv(lib, pt), to, True):
                raise Violation("'to' changed in value when it was diffed against itself: " + ctx, key="input-modified")
            if not case.get("deep"):
                self.second_round(lib, pf, pt, rnd, stats)
            # classification
            cls = set()
            if equal:
                cls.add("equal_pair")
            paths = [dict(op[1])[b"path"][1] for op in pj[1]]
            if any(p.count(b"/") >= 2 for p in paths):
                cls.add("nested_difference")
            if any(b"~" in p for p in paths):
                cls.add("escaped_key_in_patch")
            rem = {}
            for op in pj[1]:
                m = dict(op[1])
                if m[b"op"][1] == b"remove" and m[b"path"][1].split(b"/")[-1].isdigit():  # (only used to classify cases)
                    rem[m[b"path"][1]] = rem.get(m[b"path"][1], 0) + 1
            if any(v >= 2 for v in rem.values()):
                cls.add("array_shortened>=2")
            for c in cls:
                stats.cls(c)
            if cls - {"equal_pair"} and not case.get("quiet"):
                stats.nontriv([frm, to], {"from": model.emit_text(frm), "to": model.emit_text(to), "patch": ptext})
        finally:
            for p in (pf, pt, patch, dup):
                if p:
                    lib.cJSON_Delete(p)
            arena.close()
        if lib.ledger_live() != 0:
            raise Violation("blocks left allocated (%d)" % lib.ledger_live(), key="leak")
        st_ = lib.stats()
        if st_.foreign_free or (st_.cross_free and lib.ledger_mode() in (0, 1)):
            raise Violation("a pointer that the allocator never returned (or already released) was released during patch generation/application",
                            key="foreign-free")


PROP = C17()
