#!/usr/bin/env python3
"""sweep.py [--tier quick|thorough] [--seeds 2,3,4] [--checks C01,C02]: runs checks under several VERIF_SEED values on the
unchanged tree and reports every non-zero exit (a check that can fail there without a defect is broken)."""
import argparse
import os
import subprocess
import sys
import time

ROOT = os.path.dirname(os.path.dirname(os.path.abspath(__file__)))


def main():
    ap = argparse.ArgumentParser()
    ap.add_argument("--tier", default="quick")
    ap.add_argument("--seeds", default="2,3,4,5,6")
    ap.add_argument("--checks", default=",".join("C%02d" % i for i in range(1, 21)))
    a = ap.parse_args()
    bad = 0
    for seed in a.seeds.split(","):
        for c in a.checks.split(","):
            t0 = time.time()
            env = dict(os.environ, VERIF_SEED=seed, VERIF_SCRATCH_EVIDENCE="1")
            p = subprocess.run(["python3-vt", "check.py", c, "--tier", a.tier], cwd=ROOT, env=env, stdout=subprocess.PIPE, stderr=subprocess.STDOUT, text=True)
            tail = [l for l in p.stdout.splitlines() if l.strip()][-1:] or [""]
            print("seed=%s %s rc=%d %.0fs %s" % (seed, c, p.returncode, time.time() - t0, tail[0][:200]), flush=True)
            if p.returncode != 0:
                bad += 1
                print(p.stdout[-3000:], flush=True)
    print("SWEEP DONE: %d non-zero exits" % bad)
    return 1 if bad else 0


if __name__ == "__main__":
    sys.exit(main())
