"""C04 - printing then parsing returns the same value, and printing is stable."""
import ctypes
import math
import random
import re
import struct

from hypothesis import strategies as st

from .. import gens, model, printing, fuzzplan
from ..core import Prop, Violation
from ..lib import LG_BOTH, LG_DEFAULT, SweepOut


class C04(Prop):
    ID = "C04"
    RULE = ("trees of null/bool/finite numbers/strings/arrays/objects, built with the construction API (strings and keys of "
            "arbitrary non-zero bytes; numbers from random bit patterns, a boundary pool, integers to 10^15, short decimals, ulp "
            "neighbours of powers of ten, the doubles below DBL_MAX) and, when the strings are valid UTF-8, also obtained through "
            "the parser; each printed by Print/PrintUnformatted/PrintBuffered(14 prebuffer sizes around the text length)/"
            "PrintPreallocated under custom hooks (no realloc) and the default allocator (realloc); oracle: parse(T) equals the "
            "source (numbers within 2^-52 relative, finite, integers < 10^15 exact), print(parse(T)) == T, all variants identical. "
            "Print histories: objects printed one after the other whose constant keys sit at the same addresses with different contents. "
            "A C loop adds single-number trees (dense sweep). libFuzzer fz_parse checks the fixed point on parser-made trees. "
            "non-trivial = tree with a non-integer double, an escape-needing byte or depth >= 2; distinct by tree hash")
    ASSUMPTIONS = ["only the C locale exists in this sandbox (decimal point is always '.')"]
    REQUIRED_CLASSES = ["ownership_flags_variant", "parsed_then_edited", "container>10000_items", "long_string>=1000", "text_of_several_MB", "non_integer_double", "escape_needed", "depth>=2", "growth_exercised", "from_parser", "top_of_range_double",
                        "invalid_utf8", "wide_shallow>limit", "print_history_reused_constant_keys"]

    def budget(self, tier):
        return {"workers": 10, "examples": 900 if tier == "quick" else 10000}

    def fuzz_plan(self, tier):
        return [fuzzplan.parse_plan(tier, 150000, 4000000, procs_quick=6, procs_thorough=6)]

    def strategy(self, tier):
        numbers = st.one_of(gens.finite_doubles(), gens.finite_doubles(), gens.finite_doubles(), gens.top_doubles())
        strings_b = st.one_of(gens.byte_strings(16), gens.escapey_strings(), gens.invalid_utf8_strings(), gens.invalid_utf8_strings())
        strings_u = gens.with_long(st.one_of(gens.utf8_strings(10), gens.escapey_strings()), 10)

        def string_heavy(strings):
            # (strings and numbers are what this property is about: four leaves in five are one or the other)
            return st.integers(0, 9).flatmap(lambda k: strings.map(lambda b: ["S", b]) if k < 5 else
                                             (numbers.map(lambda d: ["N", d]) if k < 8 else st.sampled_from([["n"], ["t"], ["f"]])))
        leaves_b = string_heavy(strings_b)
        leaves_u = string_heavy(strings_u)
        keys_b = st.one_of(gens.byte_strings(6), gens.ascii_keys(3), gens.escapey_strings(4), gens.invalid_utf8_strings(4))
        keys_u = gens.with_long(st.one_of(gens.utf8_strings(5), gens.ascii_keys(3), gens.escapey_strings(4)), 120)
        tree = gens.weighted(
            (8, gens.shaped_documents(leaves_b, keys_b, max_leaves=16).map(lambda d: {"kind": "tree", "jv": d, "utf8": False})),
            (8, gens.shaped_documents(leaves_u, keys_u, max_leaves=16).map(lambda d: {"kind": "tree", "jv": d, "utf8": True})),
            (1, numbers.map(lambda d: {"kind": "tree", "jv": ["N", d], "utf8": True})),
            (2, gens.long_string_documents(gens.shaped_documents(leaves_u, keys_u, max_leaves=3)).map(lambda d: {"kind": "tree", "jv": d, "utf8": True})),
            (1, st.tuples(st.sampled_from(["[", "{", "[{"]), leaves_u).map(lambda t: {"kind": "tree", "jv": ["D", t[0], ["limit", 0], t[1]], "utf8": True})),
            # shallow, but more containers in total than the parser's nesting limit
            (1, st.tuples(st.sampled_from([["O", []], ["A", []], ["O", [[b"k", ["A", []]]]]]), st.sampled_from([999, 1000, 1001, 1200, 2050, 10000, 10001, 10002, 20000]),
                      st.sampled_from([["A", [["A", [["O", [[b"deep", ["A", [["t"]]]]]]]]]], ["N", 1.5]])).map(
                lambda t: {"kind": "tree", "utf8": True,
                           "jv": ["A", [t[0]] * t[1] + [t[2]]] if t[1] % 2 == 0 or t[1] < 10000 else ["O", [[b"k%d" % i, t[0]] for i in range(t[1])] + [[b"last", t[2]]]]})),
        )
        sweep = st.fixed_dictionaries({"kind": st.just("numbers"),
                                       "values": st.lists(st.one_of(numbers, st.integers(-330, 310).map(pow10),
                                                                    st.integers(0, 2 ** 64 - 1).map(bits)), min_size=20, max_size=60),
                                       "ulps": st.sampled_from([0, 2, 8])})
        # print histories: several trees printed one after the other whose constant keys (cJSON_AddItemToObjectCS) live at the
        # SAME addresses with different contents from round to round (a constant key only has to outlive its own object);
        # every print must depend on the tree it is given and on nothing an earlier print saw
        ckey = st.one_of(gens.ascii_keys(6), gens.escapey_strings(6), st.sampled_from([b"id", b"identifier", b"a", b"name", b"na\"me", b"k" * 40, b"\x01"]))
        hist_round = st.lists(st.tuples(ckey, leaves_u), min_size=1, max_size=4)
        history = st.fixed_dictionaries({"kind": st.just("history"), "rounds": st.lists(hist_round, min_size=2, max_size=4), "utf8": st.just(True)})
        # texts of several MB (print buffers far beyond 1 MiB, single strings and keys of more than 512 KiB)
        huge = st.tuples(st.sampled_from([524289, 600000, 700000, 1100000]), st.sampled_from([1, 64, 5000, 300000]), st.integers(0, 5),
                         st.sampled_from([b"a", b"\"", b"\xc3\xa9", b"\n"])).map(
            # (first string just over half a MiB, second one more than twice as long: a buffer that grows by less than doubling must
            # still be made large enough), and a few other shapes
            lambda t: {"kind": "tree", "utf8": True, "huge": True,
                       "jv": [["A", [["S", b"a" * t[0]], ["S", b"b" * (2 * t[0] + t[1])]]],
                              ["A", [["S", t[3] * (t[0] // len(t[3]))], ["S", b"b" * (2 * t[0] + t[1])]]],
                              ["O", [[b"k" * t[0], ["S", b"v" * (2 * t[0] + t[1])]]]],
                              ["A", [["S", b"x"], ["S", t[3] * ((2 * t[0] + t[1]) // len(t[3]))]]],
                              ["O", [[b"first", ["S", b"p" * t[0]]], [b"second", ["A", [["N", 1.5], ["S", b"q" * (2 * t[0] + t[1])]]]]]],
                              ["A", [["S", b"a" * t[0]], ["S", b"b" * (2 * t[0] + t[1])]]]][t[2]]})
        return gens.weighted((400, tree), (80, sweep), (40, history), (1, huge)).flatmap(
            lambda c: st.integers(0, 2 ** 31).map(lambda s: dict(c, rseed=s)))

    def run_history(self, lib, case, stats):
        slot = 64
        buf = lib.guard_rw(None, slot * 4)
        stats.cls("print_history_reused_constant_keys")
        stats.nontriv(case["rounds"], {"rounds": case["rounds"]})
        try:
            for rnd_no, members in enumerate(case["rounds"]):
                seen = set()
                obj = lib.cJSON_CreateObject()
                inner = lib.cJSON_CreateObject()
                for i, (k, leaf) in enumerate(members):
                    k = k.replace(b"\x00", b"")[:slot - 1]
                    if k in seen:
                        continue
                    seen.add(k)
                    ctypes.memmove(buf + i * slot, k + b"\x00", len(k) + 1)
                    item = printing.build_tree(lib, leaf)
                    lib.cJSON_AddItemToObjectCS(obj if i % 2 == 0 else inner, buf + i * slot, item)
                lib.cJSON_AddItemToObject(obj, b"inner", inner)
                try:
                    texts = printing.print_all(lib, obj, stats, prebuf_subset=rnd_no)
                    self.roundtrip(lib, obj, texts, stats, "print history, round %d (constant keys at re-used addresses)" % (rnd_no + 1))
                    again = printing.print_all(lib, obj, None, prebuf_subset=rnd_no + 1)
                    if again != texts:
                        raise Violation("printing the same tree twice gives different text", key="print-unstable")
                finally:
                    lib.cJSON_Delete(obj)
        finally:
            lib.guard_release(buf)
        if lib.ledger_live() != 0:
            raise Violation("blocks left allocated after a print history", key="leak")

    def run_case(self, lib, case, stats):
        if case["kind"] == "numbers":
            return self.run_numbers(lib, case, stats)
        if case["kind"] == "history":
            return self.run_history(lib, case, stats)
        jv = case["jv"]
        if jv[0] == "D" and isinstance(jv[2], list):
            jv = ["D", jv[1], lib.nesting_limit + jv[2][1], jv[3]]
        classes = set()
        for n in model.walk_jv(jv):
            if (n[0] == "S" and len(n[1]) >= 1000) or (n[0] == "O" and any(len(k) >= 1000 for k, _ in n[1])):
                classes.add("long_string>=1000")
            if n[0] == "N":
                d = n[1]
                if d != math.floor(d):
                    classes.add("non_integer_double")
                if abs(d) >= 1.797693134862315e308:
                    classes.add("top_of_range_double")
            if n[0] == "S" and any(c < 0x20 or c in (0x22, 0x5C) for c in n[1]):
                classes.add("escape_needed")
            if n[0] == "O" and any(any(c < 0x20 or c in (0x22, 0x5C) for c in k) for k, _ in n[1]):
                classes.add("escape_needed")
        if model.depth_of(jv) >= 2:
            classes.add("depth>=2")
        if jv[0] in "AO" and len(jv[1]) >= 999:
            classes.add("wide_shallow>limit")
        if jv[0] in "AO" and len(jv[1]) > 10000:
            classes.add("container>10000_items")
        if case.get("huge"):
            classes.add("text_of_several_MB")
        if not case["utf8"]:
            for n in model.walk_jv(jv):
                if n[0] == "S":
                    try:
                        n[1].decode("utf-8")
                    except UnicodeDecodeError:
                        classes.add("invalid_utf8")
        for c in classes:
            stats.cls(c)
        if classes & {"non_integer_double", "escape_needed", "depth>=2"}:
            stats.nontriv(case["jv"], {"tree": case["jv"]})

        texts_by_mode = []
        for mode in (LG_BOTH, LG_DEFAULT):
            printing.with_hooks(lib, mode)
            try:
                tree = printing.build_tree(lib, jv)
                texts = printing.print_all(lib, tree, stats, prebuf_subset=None if (model.count_nodes(jv) < 200 and not case.get("huge")) else case["rseed"])
                self.roundtrip(lib, tree, texts, stats, "built tree, %s" % ("custom hooks without realloc" if mode == LG_BOTH else "default allocator"))
                if case["utf8"] and mode == LG_BOTH:
                    # the same value obtained through the parser
                    src = model.emit_text(jv, random.Random(case["rseed"]))
                    po = lib.parse(2, src, 0, 0, 0)
                    if po.tree:
                        stats.cls("from_parser")
                        try:
                            ptexts = printing.print_all(lib, po.tree, stats, prebuf_subset=case["rseed"])
                            self.roundtrip(lib, po.tree, ptexts, stats, "parsed tree")
                            # ... and edited through the API afterwards: what the parser knew about a node must not outlive an edit
                            rr = random.Random(case["rseed"] + 7)
                            nedits = [0]

                            def mutate(p):
                                t = lib.shim_type(p) & 0xFF
                                if t == 16 and rr.random() < 0.6:
                                    new = rr.choice([b'q"uote', b"back\\slash", b"\x01ctl", b"plain", b"", b"longer " * 8 + b'"', b"tab\there", b"\x7f\""])
                                    if lib.cJSON_SetValuestring(p, new):
                                        nedits[0] += 1
                                elif t == 8 and rr.random() < 0.6:
                                    lib.shim_set_number_value(p, rr.choice([0.5, -3.0, 1e300, 2147483648.0, 0.1 + 0.2, 7.0]))
                                    nedits[0] += 1
                                for k in lib.children(p):
                                    mutate(k)
                            if model.count_nodes(jv) < 300:
                                mutate(po.tree)
                            if nedits[0]:
                                stats.cls("parsed_then_edited")
                                etexts = printing.print_all(lib, po.tree, stats, prebuf_subset=case["rseed"] + 1)
                                self.roundtrip(lib, po.tree, etexts, stats, "parsed tree edited through the API")
                        finally:
                            lib.cJSON_Delete(po.tree)
                lib.cJSON_Delete(tree)
                if case["rseed"] % 3 == 1 and model.count_nodes(jv) < 300:
                    # the same value reached through ownership flags and reference items (at the root and inside the tree)
                    variant = ["cs_member", "reference", "stale_key", "tail_reference", "holder_of_references"][(case["rseed"] // 3) % 5]
                    rv = printing.RootVariant(lib, jv, variant, random.Random(case["rseed"]))
                    try:
                        if rv.variant != "plain":
                            stats.cls("ownership_flags_variant")
                            vtexts = printing.print_all(lib, rv.root, stats, prebuf_subset=case["rseed"])
                            self.roundtrip(lib, rv.root, vtexts, stats, "tree with ownership flags / reference items (%s)" % rv.variant)
                    finally:
                        rv.close()
                texts_by_mode.append(texts)
                if lib.ledger_live() != 0:
                    raise Violation("blocks left allocated after print/parse/delete", key="leak")
            finally:
                if lib.ledger_live() == 0:
                    lib.ledger_install(LG_BOTH)
        if texts_by_mode[0] != texts_by_mode[1]:
            raise Violation("printed text depends on whether the allocator offers realloc", key="allocator-dependent")

    def roundtrip(self, lib, tree, texts, stats, what):
        src_dump, fl, _, _ = lib.dump(tree, 1, 0)
        # (a name the printed item itself still carries - a former member - is not part of its value)
        src_dump = re.sub(r"\A\((\w)(c?r?)k[0-9a-f]*;", r"(\1\2", src_dump)
        src_mask, src_nums = printing.mask_numbers(printing.strip_ownership(src_dump))
        for fmt in (0, 1):
            T = texts[fmt]
            po = lib.parse(2, T, 0, 0, 0)
            stats.inner += 1
            if not po.tree:
                raise Violation("%s: printed text does not parse back (fmt=%d): %r" % (what, fmt, T[:200]), key="reparse-null")
            try:
                got, fl2, _, _ = lib.dump(po.tree)
                gmask, gnums = printing.mask_numbers(got)
                if gmask != src_mask:
                    raise Violation("%s: print->parse changed shape/keys/strings (fmt=%d): %s; text %r" % (
                        what, fmt, model.explain_dump_diff(gmask, src_mask), T[:200]), key="roundtrip-structure")
                for (xb, _), (yb, _) in zip(src_nums, gnums):
                    x, y = model.from_bits(xb), model.from_bits(yb)
                    why = printing.number_roundtrip_ok(x, y)
                    if why:
                        raise Violation("%s: number %r printed and re-parsed as %r: %s (text %r)" % (what, x, y, why, T[:80]),
                                        key="roundtrip-number")
                again = lib.take_text(lib.cJSON_Print(po.tree) if fmt else lib.cJSON_PrintUnformatted(po.tree))
                if again != T:
                    raise Violation("%s: print(parse(T)) != T (fmt=%d): %r vs %r" % (what, fmt, (again or b"")[:200], T[:200]), key="fixed-point")
            finally:
                lib.cJSON_Delete(po.tree)

    def run_numbers(self, lib, case, stats):
        vals = [float(v) for v in case["values"] if v == v and not math.isinf(v)]
        arr = (ctypes.c_double * len(vals))(*vals)
        so = SweepOut()
        bad = ctypes.c_double(0.0)
        lib.sweep_numbers(arr, len(vals), case["ulps"], 1.0, 0.0, ctypes.byref(so), ctypes.byref(bad))
        stats.inner += int(so.iterations)
        stats.cls("dense_number_sweep", int(so.iterations))
        stats.nontriv(["numbers", case["values"][:4], case["ulps"]], {"numbers_first": case["values"][:6], "ulps": case["ulps"]})
        if so.code:
            raise Violation("number %r: %s" % (bad.value, so.msg.decode()), key="roundtrip-number",
                            detail={"value": bad.value})

    def shrink_candidates(self, case):
        if case.get("kind") != "tree":
            return []
        jv = case["jv"]
        out = []
        if jv[0] in "AO":
            for i in range(len(jv[1])):
                out.append(dict(case, jv=[jv[0], jv[1][:i] + jv[1][i + 1:]]))
            for ch in jv[1]:
                out.append(dict(case, jv=ch if jv[0] == "A" else ch[1]))
        return out


def pow10(e):
    try:
        return float("1e%d" % e)
    except OverflowError:
        return 1.0


def bits(n):
    d = struct.unpack(">d", n.to_bytes(8, "big"))[0]
    return d if d == d and not math.isinf(d) else 1.0


PROP = C04()
