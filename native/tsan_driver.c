/* C20: runs thread-private operation programs, first each alone (reference digest), then all
 * concurrently behind a barrier for several rounds; prints one digest line per thread and round.
 * Built with gcc -fsanitize=thread together with the library sources.
 *
 * Program file (text):   threads N / rounds R / then lines "<tid> <op> <args...>" (strings as hex)
 *   P slot entry require_nt hextext      parse (ParseWithLengthOpts / ParseWithOpts with return_parse_end; never cJSON_GetErrorPtr)
 *   R slot variant fmt prebuffer         print (0 Print, 1 PrintUnformatted, 2 PrintBuffered, 3 PrintPreallocated) -> digest
 *   D dst src recurse                    duplicate
 *   C a b case_sensitive                 compare -> digest
 *   M hextext                            minify a private copy -> digest
 *   E slot kind a hexkey                 edit (see below) -> digest of the return value
 *   U kind a b case_sensitive hextext    utilities (pointer get/find, generate/apply patch, merge, generate merge, sort) -> digest
 *   X slot                               delete
 * All slots are private to the thread.  The library is used exactly as property C20 allows.
 */
#include <pthread.h>
#include <sys/types.h>
#include <sys/wait.h>
#include <unistd.h>
#include <stdio.h>
#include <stdlib.h>
#include <string.h>
#include <stdint.h>
#include "cJSON.h"
#include "cJSON_Utils.h"

#define MAX_THREADS 16
#define MAX_OPS 256
#define SLOTS 8

typedef struct
{
    char op;
    long a, b, c, d;
    unsigned char *s;
    size_t slen;
} op_t;

typedef struct
{
    op_t ops[MAX_OPS];
    int nops;
    uint64_t digest;
    int id;
    long failat;
} prog_t;

static prog_t progs[MAX_THREADS];
static int nthreads = 0;
static int rounds = 3;
static unsigned long schedules[16];
static int nschedules = 0;
static pthread_barrier_t barrier;

static uint64_t fold(uint64_t h, const void *p, size_t n)
{
    const unsigned char *b = (const unsigned char *)p;
    size_t i;
    for (i = 0; i < n; i++)
    {
        h ^= b[i];
        h *= 1099511628211ULL;
    }
    h ^= 0xff;
    h *= 1099511628211ULL;
    return h;
}

static uint64_t fold_str(uint64_t h, const char *s)
{
    if (s == NULL)
    {
        return fold(h, "\x01NULL", 5);
    }
    return fold(h, s, strlen(s));
}

static uint64_t fold_int(uint64_t h, long v) { return fold(h, &v, sizeof(v)); }

static unsigned char *unhex(const char *hex, size_t *len)
{
    size_t n = strlen(hex) / 2;
    unsigned char *out = (unsigned char *)malloc(n + 1);
    size_t i;
    if (hex[0] == '-')
    {
        n = 0;
    }
    for (i = 0; i < n; i++)
    {
        unsigned v;
        sscanf(hex + 2 * i, "%2x", &v);
        out[i] = (unsigned char)v;
    }
    out[n] = 0;
    *len = n;
    return out;
}

typedef struct
{
    cJSON *slot[SLOTS];
    uint64_t h;
    int pc;
    long allocs;   /* allocation requests made so far inside core API calls of this program (custom hooks only) */
    long failat;   /* the request with this number is refused (0: none) */
} pstate_t;

/* custom allocation hooks, installed once before any thread starts (as property C20 requires).  They are thread-safe
 * (plain malloc/free) and refuse the failat-th request a program makes inside core API calls - the calls for which a single
 * refused request must fail cleanly (C08); utility calls are never faulted (the library does not promise to survive that). */
static int use_hooks = 0;
static int fail_in_utils = 0;   /* refuse requests inside cJSON_Utils calls too (only kept if every program survives that alone) */
static __thread pstate_t *cur_state = NULL;
static __thread int in_core = 0;

static void *hook_malloc(size_t n)
{
    pstate_t *st = cur_state;
    if (st != NULL && in_core && st->failat > 0)
    {
        st->allocs++;
        if (st->allocs == st->failat)
        {
            return NULL;
        }
    }
    return malloc(n);
}

static void hook_free(void *p)
{
    free(p);
}

/* "slab 1": the threads' text buffers are adjacent slices of ONE block (a caller that cuts a large read buffer into records and
 * hands one record to each worker).  A thread's text is placed flush against the END of its slice and the thread uses the first
 * byte of its own slice as a scratch cell; the byte behind a slice is therefore a byte that the next thread writes.  Reading at or
 * behind buffer + length is an access to memory the thread does not own. */
#define SLICE 8192
static unsigned char *slab = NULL;

static char *text_buffer(const prog_t *p, const op_t *o, int terminated, int *from_slab)
{
    size_t need = o->slen + (terminated ? 1 : 0);
    char *copy;
    if (slab != NULL && need + 1 < SLICE && need > 0)
    {
        unsigned char *slice = slab + (size_t)p->id * SLICE;
        copy = (char *)(slice + SLICE - need);
        slice[0] = (unsigned char)(o->slen & 0x7F);
        *from_slab = 1;
    }
    else
    {
        copy = (char *)malloc(o->slen + 1);
        *from_slab = 0;
        terminated = 1;
    }
    memcpy(copy, o->s, o->slen);
    if (terminated)
    {
        copy[o->slen] = 0;
    }
    return copy;
}

static void state_init(pstate_t *st, long failat)
{
    memset(st->slot, 0, sizeof(st->slot));
    st->h = 1469598103934665603ULL;
    st->pc = 0;
    st->allocs = 0;
    st->failat = failat;
}

/* executes the next operation of the program; returns 0 when the program has ended */
static int step_program(const prog_t *p, pstate_t *st)
{
    cJSON **slot = st->slot;
    uint64_t h = st->h;
    int i = st->pc;
    if (i >= p->nops)
    {
        return 0;
    }
    cur_state = st;
    in_core = (p->ops[i].op != 'U') || fail_in_utils;
    {
        const op_t *o = &p->ops[i];
        int a = (int)(o->a % SLOTS);
        int b = (int)(o->b % SLOTS);
        switch (o->op)
        {
            case 'P':
            {
                const char *end = NULL;
                cJSON *t;
                int from_slab = 0;
                /* (the length-delimited entry point without the terminator in its length needs no terminator at all) */
                char *copy = text_buffer(p, o, (o->b & 1) || (o->b & 2), &from_slab);
                if (o->b & 1)
                {
                    t = cJSON_ParseWithOpts(copy, &end, (int)o->c);
                }
                else
                {
                    t = cJSON_ParseWithLengthOpts(copy, o->slen + ((o->b & 2) ? 1 : 0), &end, (int)o->c);
                }
                h = fold_int(h, t != NULL);
                h = fold_int(h, end ? (long)(end - copy) : -1);
                cJSON_Delete(slot[a]);
                slot[a] = t;
                if (!from_slab)
                {
                    free(copy);
                }
                break;
            }
            case 'R':
            {
                char *t = NULL;
                if (slot[a] == NULL)
                {
                    break;
                }
                switch (o->b % 4)
                {
                    case 0: t = cJSON_Print(slot[a]); break;
                    case 1: t = cJSON_PrintUnformatted(slot[a]); break;
                    case 2: t = cJSON_PrintBuffered(slot[a], (int)(o->d % 400), (int)(o->c & 1)); break;
                    default:
                    {
                        char buf[4096];
                        if (cJSON_PrintPreallocated(slot[a], buf, (int)sizeof(buf), (int)(o->c & 1)))
                        {
                            h = fold_str(h, buf);
                        }
                        else
                        {
                            h = fold_int(h, -2);
                        }
                        break;
                    }
                }
                if ((o->b % 4) != 3)
                {
                    h = fold_str(h, t);
                    cJSON_free(t);
                }
                break;
            }
            case 'D':
                if (slot[b] != NULL)
                {
                    cJSON *d = cJSON_Duplicate(slot[b], (int)(o->c & 1));
                    cJSON_Delete(slot[a]);
                    slot[a] = d;
                    h = fold_int(h, d != NULL);
                }
                break;
            case 'C':
                h = fold_int(h, cJSON_Compare(slot[a], slot[b], (int)(o->c & 1)));
                break;
            case 'M':
            {
                int from_slab = 0;
                char *copy = text_buffer(p, o, 1, &from_slab);
                cJSON_Minify(copy);
                h = fold_str(h, copy);
                if (!from_slab)
                {
                    free(copy);
                }
                break;
            }
            case 'E':
            {
                cJSON *t = slot[a];
                const char *key = (const char *)o->s;
                if (t == NULL)
                {
                    break;
                }
                switch (o->b % 8)
                {
                    case 0:
                        if (cJSON_IsObject(t)) h = fold_int(h, cJSON_AddNumberToObject(t, key, (double)o->c / 8.0) != NULL);
                        else if (cJSON_IsArray(t)) h = fold_int(h, cJSON_AddItemToArray(t, cJSON_CreateNumber((double)o->c / 8.0)));
                        break;
                    case 1:
                        if (cJSON_IsObject(t)) h = fold_int(h, cJSON_AddStringToObject(t, key, key) != NULL);
                        else if (cJSON_IsArray(t)) h = fold_int(h, cJSON_AddItemToArray(t, cJSON_CreateString(key)));
                        break;
                    case 2:
                        if (cJSON_IsArray(t) || cJSON_IsObject(t))
                        {
                            cJSON *x = cJSON_DetachItemFromArray(t, (int)(o->c % 5));
                            h = fold_int(h, x != NULL);
                            cJSON_Delete(x);
                        }
                        break;
                    case 3:
                        if (cJSON_IsObject(t)) h = fold_int(h, cJSON_ReplaceItemInObjectCaseSensitive(t, key, cJSON_CreateTrue()));
                        break;
                    case 4:
                        if (cJSON_IsArray(t)) h = fold_int(h, cJSON_InsertItemInArray(t, (int)(o->c % 4), cJSON_CreateNull()));
                        break;
                    case 5:
                    {
                        cJSON *x = cJSON_GetArrayItem(t, (int)(o->c % 5));
                        if (cJSON_IsNumber(x)) cJSON_SetNumberValue(x, (double)o->c * 1.5);
                        if (cJSON_IsString(x) && !(x->type & cJSON_IsReference)) h = fold_str(h, cJSON_SetValuestring(x, key));
                        h = fold_int(h, cJSON_GetArraySize(t));
                        break;
                    }
                    case 6:
                        h = fold_int(h, cJSON_HasObjectItem(t, key));
                        h = fold_int(h, cJSON_GetObjectItemCaseSensitive(t, key) != NULL);
                        break;
                    default:
                        if (cJSON_IsObject(t)) cJSON_DeleteItemFromObject(t, key);
                        h = fold_int(h, cJSON_GetArraySize(t));
                        break;
                }
                break;
            }
            case 'U':
            {
                cJSON *x = slot[a];
                cJSON *y = slot[b];
                int cs = (int)(o->c & 1);
                if (x == NULL)
                {
                    break;
                }
                switch (o->d % 7)
                {
                    case 0:
                    {
                        cJSON *found = cs ? cJSONUtils_GetPointerCaseSensitive(x, (const char *)o->s) : cJSONUtils_GetPointer(x, (const char *)o->s);
                        h = fold_int(h, found != NULL);
                        if (found != NULL)
                        {
                            char *ptr = cJSONUtils_FindPointerFromObjectTo(x, found);
                            h = fold_str(h, ptr);
                            cJSON_free(ptr);
                        }
                        break;
                    }
                    case 1:
                        if (y != NULL && y != x)
                        {
                            cJSON *p = cs ? cJSONUtils_GeneratePatchesCaseSensitive(x, y) : cJSONUtils_GeneratePatches(x, y);
                            char *t = cJSON_PrintUnformatted(p);
                            h = fold_str(h, t);
                            if (p != NULL)
                            {
                                cJSON *dup = cJSON_Duplicate(x, 1);
                                h = fold_int(h, cs ? cJSONUtils_ApplyPatchesCaseSensitive(dup, p) : cJSONUtils_ApplyPatches(dup, p));
                                cJSON_Delete(dup);
                            }
                            cJSON_free(t);
                            cJSON_Delete(p);
                        }
                        break;
                    case 2:
                    {
                        cJSON *patch = cJSON_ParseWithLength((const char *)o->s, o->slen);
                        if (patch != NULL)
                        {
                            h = fold_int(h, cs ? cJSONUtils_ApplyPatchesCaseSensitive(x, patch) : cJSONUtils_ApplyPatches(x, patch));
                            cJSON_Delete(patch);
                        }
                        break;
                    }
                    case 3:
                        if (y != NULL && y != x)
                        {
                            cJSON *p = cs ? cJSONUtils_GenerateMergePatchCaseSensitive(x, y) : cJSONUtils_GenerateMergePatch(x, y);
                            char *t = cJSON_PrintUnformatted(p);
                            h = fold_str(h, t);
                            cJSON_free(t);
                            cJSON_Delete(p);
                        }
                        break;
                    case 4:
                    {
                        cJSON *patch = cJSON_ParseWithLength((const char *)o->s, o->slen);
                        if (patch != NULL)
                        {
                            cJSON *dup = cJSON_Duplicate(x, 1);
                            cJSON *res = cs ? cJSONUtils_MergePatchCaseSensitive(dup, patch) : cJSONUtils_MergePatch(dup, patch);
                            char *t = cJSON_PrintUnformatted(res);
                            h = fold_str(h, t);
                            cJSON_free(t);
                            cJSON_Delete(res);
                            cJSON_Delete(patch);
                        }
                        break;
                    }
                    case 5:
                        if (cs) cJSONUtils_SortObjectCaseSensitive(x); else cJSONUtils_SortObject(x);
                        break;
                    default:
                    {
                        /* pointer construction for a node some levels down (arrays and objects on the way), and its lookup */
                        cJSON *node = x;
                        long sel = o->b + 3 * o->c;
                        int depth;
                        char *ptr;
                        for (depth = 0; depth < 6 && node->child != NULL && !(node->type & cJSON_IsReference); depth++)
                        {
                            int n = cJSON_GetArraySize(node);
                            cJSON *ch = cJSON_GetArrayItem(node, (int)((sel + depth) % (n > 0 ? n : 1)));
                            if (ch == NULL)
                            {
                                break;
                            }
                            node = ch;
                        }
                        ptr = cJSONUtils_FindPointerFromObjectTo(x, node);
                        h = fold_str(h, ptr);
                        if (ptr != NULL)
                        {
                            h = fold_int(h, cJSONUtils_GetPointerCaseSensitive(x, ptr) == node);
                            cJSON_free(ptr);
                        }
                        break;
                    }
                }
                break;
            }
            case 'X':
                cJSON_Delete(slot[a]);
                slot[a] = NULL;
                break;
            default:
                break;
        }
    }
    in_core = 0;
    st->h = h;
    st->pc = i + 1;
    return 1;
}

static uint64_t finish_program(pstate_t *st)
{
    int i;
    uint64_t h = st->h;
    cur_state = st;
    in_core = 0;
    for (i = 0; i < SLOTS; i++)
    {
        if (st->slot[i] != NULL)
        {
            char *t = cJSON_PrintUnformatted(st->slot[i]);
            h = fold_str(h, t);
            cJSON_free(t);
            cJSON_Delete(st->slot[i]);
            st->slot[i] = NULL;
        }
    }
    return h;
}

static uint64_t run_program(const prog_t *p)
{
    pstate_t st;
    state_init(&st, p->failat);
    while (step_program(p, &st))
    {
    }
    return finish_program(&st);
}

/* schedule-owned interleaving: all programs advance in ONE thread, one library call at a time, in an order drawn from
 * a small PRNG; state the library keeps between calls (caches, memoised lookups, self-tuning sizes) is then shared by
 * the logical threads in a known order, which the OS scheduler only produces by luck */
static int run_interleaved(unsigned long seed, const uint64_t *solo)
{
    static pstate_t st[MAX_THREADS];
    int alive[MAX_THREADS];
    int nalive = nthreads;
    int i;
    int bad = 0;
    unsigned long x = seed * 2862933555777941757UL + 3037000493UL;
    for (i = 0; i < nthreads; i++)
    {
        state_init(&st[i], progs[i].failat);
        alive[i] = i;
    }
    while (nalive > 0)
    {
        int k;
        int burst;
        x = x * 6364136223846793005UL + 1442695040888963407UL;
        k = (int)((x >> 33) % (unsigned long)nalive);
        burst = (seed % 3 == 0) ? 1 : 1 + (int)((x >> 20) % 3);
        while (burst-- > 0)
        {
            if (!step_program(&progs[alive[k]], &st[alive[k]]))
            {
                alive[k] = alive[--nalive];
                break;
            }
        }
    }
    for (i = 0; i < nthreads; i++)
    {
        uint64_t d = finish_program(&st[i]);
        if (d != solo[i])
        {
            printf("DIGEST-MISMATCH interleaved schedule %lu thread %d: %016llx vs solo %016llx\n", seed, i, (unsigned long long)d, (unsigned long long)solo[i]);
            bad++;
        }
    }
    return bad;
}

/* Where does the library keep the documented "position of the last parse error"?  Found by behaviour, not by name: after a
 * failing parse of buffer B (error at offset k) some word(s) of the program's writable data hold B, B+k (or k next to B); after a
 * second failing parse of another buffer the same words hold the new values.  Races on exactly those bytes are the ones the
 * documentation allows; the Python side excuses a report only if its location lies inside a range printed here. */
extern char __data_start[];
extern char _end[];

static void probe_words(const char *buf, size_t k, unsigned char *marks, uintptr_t *lo_out, size_t nwords, int first)
{
    uintptr_t *w = (uintptr_t *)(((uintptr_t)__data_start + 7u) & ~(uintptr_t)7u);
    size_t i;
    (void)lo_out;
    for (i = 0; i < nwords; i++)
    {
        uintptr_t v = w[i];
        int hit = (v == (uintptr_t)buf) || (v == (uintptr_t)buf + k) || (v == (uintptr_t)k && i > 0 && w[i - 1] == (uintptr_t)buf)
                  || (v == (uintptr_t)k && i + 1 < nwords && w[i + 1] == (uintptr_t)buf);
        if (first)
        {
            marks[i] = (unsigned char)hit;
        }
        else
        {
            marks[i] = (unsigned char)(marks[i] && hit);
        }
    }
}

static void locate_error_position(void)
{
    static char text1[2048];
    static char text2[3072];
    uintptr_t base = ((uintptr_t)__data_start + 7u) & ~(uintptr_t)7u;
    size_t nwords = ((uintptr_t)_end - base) / sizeof(uintptr_t);
    unsigned char *marks = (unsigned char *)calloc(nwords + 1, 1);
    size_t k1 = 1237;
    size_t k2 = 2011;
    size_t i;
    cJSON *t;
    if (marks == NULL)
    {
        return;
    }
    /* "[1,1,1,...,1,?" : the parser fails exactly at the '?' */
    memset(text1, 0, sizeof(text1));
    memset(text2, 0, sizeof(text2));
    text1[0] = '[';
    for (i = 1; i < k1; i += 2) { text1[i] = '1'; text1[i + 1] = ','; }
    text1[k1] = '?';
    text2[0] = '[';
    for (i = 1; i < k2; i += 2) { text2[i] = '2'; text2[i + 1] = ','; }
    text2[k2] = '?';
    t = cJSON_ParseWithLength(text1, k1 + 1);
    cJSON_Delete(t);
    probe_words(text1, k1, marks, NULL, nwords, 1);
    t = cJSON_ParseWithLength(text2, k2 + 1);
    cJSON_Delete(t);
    probe_words(text2, k2, marks, NULL, nwords, 0);
    for (i = 0; i < nwords; i++)
    {
        if (marks[i])
        {
            printf("ERRPOS %llx %llx\n", (unsigned long long)(base + i * sizeof(uintptr_t)), (unsigned long long)(base + (i + 1) * sizeof(uintptr_t)));
        }
    }
    free(marks);
}

static void *thread_main(void *arg)
{
    prog_t *p = (prog_t *)arg;
    pthread_barrier_wait(&barrier);
    p->digest = run_program(p);
    return NULL;
}

int main(int argc, char **argv)
{
    FILE *f;
    char *line = NULL;
    size_t cap = 0;
    uint64_t solo[MAX_THREADS];
    int i, r;
    int mismatches = 0;
    if (argc < 2)
    {
        fprintf(stderr, "usage: tsan_driver <program file>\n");
        return 2;
    }
    f = fopen(argv[1], "r");
    if (f == NULL)
    {
        perror("open");
        return 2;
    }
    while (getline(&line, &cap, f) > 0)
    {
        char *hex = (char *)malloc(strlen(line) + 2);
        int tid;
        char opc;
        long a = 0, b = 0, c = 0, d = 0;
        hex[0] = '-';
        hex[1] = 0;
        if (sscanf(line, "threads %d", &nthreads) == 1)
        {
            free(hex);
            continue;
        }
        if (sscanf(line, "rounds %d", &rounds) == 1)
        {
            free(hex);
            continue;
        }
        if (sscanf(line, "hooks %d", &use_hooks) == 1)
        {
            free(hex);
            continue;
        }
        if (sscanf(line, "failutils %d", &fail_in_utils) == 1)
        {
            free(hex);
            continue;
        }
        {
            int sl = 0;
            if (sscanf(line, "slab %d", &sl) == 1)
            {
                if (sl && slab == NULL)
                {
                    slab = (unsigned char *)calloc(MAX_THREADS + 1, SLICE);
                }
                free(hex);
                continue;
            }
        }
        {
            int ft;
            long fk;
            if (sscanf(line, "failat %d %ld", &ft, &fk) == 2)
            {
                if (ft >= 0 && ft < MAX_THREADS)
                {
                    progs[ft].failat = fk;
                }
                free(hex);
                continue;
            }
        }
        {
            unsigned long sv;
            if (sscanf(line, "schedule %lu", &sv) == 1)
            {
                if (nschedules < 16)
                {
                    schedules[nschedules++] = sv;
                }
                free(hex);
                continue;
            }
        }
        if (sscanf(line, "%d %c %ld %ld %ld %ld %s", &tid, &opc, &a, &b, &c, &d, hex) >= 2 && tid >= 0 && tid < MAX_THREADS)
        {
            prog_t *p = &progs[tid];
            if (p->nops < MAX_OPS)
            {
                op_t *o = &p->ops[p->nops++];
                o->op = opc;
                o->a = a < 0 ? -a : a;
                o->b = b < 0 ? -b : b;
                o->c = c < 0 ? -c : c;
                o->d = d < 0 ? -d : d;
                o->s = unhex(hex, &o->slen);
            }
        }
        free(hex);
    }
    fclose(f);
    if (nthreads < 1 || nthreads > MAX_THREADS)
    {
        fprintf(stderr, "bad thread count\n");
        return 2;
    }
    if (use_hooks)
    {
        cJSON_Hooks hooks;
        hooks.malloc_fn = hook_malloc;
        hooks.free_fn = hook_free;
        cJSON_InitHooks(&hooks);
    }
    if (use_hooks && fail_in_utils)
    {
        /* The library does not promise that utility calls survive a refused allocation.  Whether these programs do is
         * found out in a child process (so that this process stays cold): if a program dies alone, there is nothing to
         * compare a concurrent run with, and the case gets no verdict. */
        pid_t pid;
        int st = 0;
        int fds[2];
        char ok = 0;
        fflush(stdout);
        if (pipe(fds) != 0)
        {
            return 2;
        }
        pid = fork();
        if (pid == 0)
        {
            close(fds[0]);
            for (i = 0; i < nthreads; i++)
            {
                (void)run_program(&progs[i]);
            }
            /* the exit status says nothing (a sanitizer may exit 0 after a fatal signal): survival is reported explicitly */
            if (write(fds[1], "k", 1) != 1)
            {
                _exit(3);
            }
            _exit(0);
        }
        close(fds[1]);
        if (pid < 0 || read(fds[0], &ok, 1) != 1 || ok != 'k')
        {
            ok = 0;
        }
        close(fds[0]);
        if (pid > 0)
        {
            (void)waitpid(pid, &st, 0);
        }
        if (!ok)
        {
            printf("SOLO-FAILS (a program does not survive its refused allocation when running alone: no verdict)\n");
            return 0;
        }
    }
    /* The FIRST concurrent round runs before anything else has touched the library in this process, so that lazily
     * initialised or self-tuning shared state is first used concurrently (a warm-up in the main thread would hide it).
     * Then every program runs alone in the main thread (reference digest), then the remaining concurrent rounds. */
    {
        uint64_t conc[8][MAX_THREADS];
        int total_rounds = rounds > 8 ? 8 : rounds;
        for (i = 0; i < nthreads; i++)
        {
            progs[i].id = i;
        }
        for (r = 0; r < total_rounds; r++)
        {
            pthread_t th[MAX_THREADS];
            if (r == 1)
            {
                for (i = 0; i < nthreads; i++)
                {
                    progs[i].id = i;
                    solo[i] = run_program(&progs[i]);
                    printf("solo %d %016llx\n", i, (unsigned long long)solo[i]);
                }
            }
            pthread_barrier_init(&barrier, NULL, (unsigned)nthreads);
            for (i = 0; i < nthreads; i++)
            {
                pthread_create(&th[i], NULL, thread_main, &progs[i]);
            }
            for (i = 0; i < nthreads; i++)
            {
                pthread_join(th[i], NULL);
            }
            pthread_barrier_destroy(&barrier);
            for (i = 0; i < nthreads; i++)
            {
                conc[r][i] = progs[i].digest;
            }
        }
        if (total_rounds < 2)
        {
            for (i = 0; i < nthreads; i++)
            {
                solo[i] = run_program(&progs[i]);
            }
        }
        for (r = 0; r < total_rounds; r++)
        {
            for (i = 0; i < nthreads; i++)
            {
                if (conc[r][i] != solo[i])
                {
                    printf("DIGEST-MISMATCH round %d thread %d: %016llx vs solo %016llx\n", r, i, (unsigned long long)conc[r][i], (unsigned long long)solo[i]);
                    mismatches++;
                }
            }
        }
    }
    for (i = 0; i < nschedules; i++)
    {
        mismatches += run_interleaved(schedules[i], solo);
    }
    locate_error_position();
    printf("done mismatches=%d\n", mismatches);
    return mismatches ? 3 : 0;
}
