"""C14 - all library memory goes through the installed allocator hooks."""
from hypothesis import strategies as st

from ..core import Prop, Violation
from ..lib import LG_DEFAULT, LG_BOTH, LG_MALLOC_ONLY, LG_FREE_ONLY, LG_NULL_MEMBERS
from ..treemodel import World
from ..treeops import Interp
from .c06 import op_records, seed_trees
from .c07 import OPS_C07

MODES = [LG_DEFAULT, LG_BOTH, LG_MALLOC_ONLY, LG_FREE_ONLY, LG_NULL_MEMBERS]
MODE_NAMES = {LG_DEFAULT: "default (InitHooks(NULL))", LG_BOTH: "both hooks custom", LG_MALLOC_ONLY: "only malloc_fn custom",
              LG_FREE_ONLY: "only free_fn custom", LG_NULL_MEMBERS: "hooks struct with NULL members"}
OPS_C14 = OPS_C07 + ["print"] * 8 + ["utils"] * 10 + ["parse"] * 3 + ["dup"] * 3 + ["set_string"] * 3
BIG = ["O", [[b"big", ["S", b"x" * 300]], [b"list", ["A", [["S", b"y" * 40]] * 8]], [b"n", ["N", 1.5]]]]


class C14(Prop):
    ID = "C14"
    RULE = ("histories of 1-3 segments; each segment installs one hook configuration out of {InitHooks(NULL), both custom, only malloc_fn, only "
            "free_fn, struct with NULL members} (so custom->default resets occur), builds seed trees (one prints to > 256 bytes) and runs a "
            "C07 operation program extended with cJSON_Utils calls (pointer construction, patch generation/application, merge patch, "
            "AddPatchToArray) and every print variant; all roots are deleted before the next segment. The library's direct allocator calls "
            "are observed through link-time --wrap of malloc/realloc/calloc/free, the hook side through the ledger. Oracle per configuration: "
            "both custom: no libc allocator call at all, every release goes to free_fn with a live block that malloc_fn returned; one custom: "
            "the custom side sees every call of its kind and realloc is never used; default/NULL: hooks see nothing; always: returned texts "
            "and pointer strings are live blocks of the installed allocator, cJSON_free releases them, no foreign/double free, ledger "
            "empty after deleting the roots. non-trivial = (segment, configuration) whose program grows a print buffer or calls a Utils "
            "function; distinct by hash")
    ASSUMPTIONS = ["free_fn(NULL) is a legal no-op (free-compatible contract)", "hooks are only switched while no library block is live"]
    REQUIRED_CLASSES = ["mode:%d" % m for m in MODES] + ["print_growth", "utils", "reset_after_custom"]

    def budget(self, tier):
        return {"workers": 14, "examples": 900 if tier == "quick" else 12000}

    def strategy(self, tier):
        seg = st.fixed_dictionaries({"mode": st.sampled_from(MODES + [LG_BOTH, LG_MALLOC_ONLY, LG_FREE_ONLY]), "seeds": seed_trees(2),
                                     "ops": op_records(OPS_C14, 40), "big": st.booleans()})
        return st.fixed_dictionaries({"segments": st.lists(seg, min_size=1, max_size=3)})

    def prelude(self, lib, stats, index, nworkers, tier):
        """utility results of every size class: the composed patch path of every length 1..300 (small-buffer optimisations
        and their boundaries live here), under both-custom hooks and only-free-custom hooks"""
        for L in range(1, 301):
            if L % nworkers != index:
                continue
            for shape in range(4):
                for mode in (LG_BOTH, LG_FREE_ONLY) if L < 140 else (LG_BOTH,):
                    case = {"kind": "pathlen", "len": L, "shape": shape, "mode": mode}
                    self.last_write(case)
                    try:
                        self.run_pathlen(lib, stats, case)
                    except Violation as v:
                        v.detail = {"case": case}
                        raise

    def run_pathlen(self, lib, stats, case):
        from .c17 import PROP as c17
        mode = case["mode"]
        lib.ledger_install(mode)
        lib.ledger_reset_counters()
        try:
            c17.run_pathlen(lib, stats, case)
            s = lib.stats()
            if mode == LG_BOTH and (s.wrap_malloc or s.wrap_realloc or s.wrap_calloc or s.wrap_free):
                raise Violation("[both hooks custom] the C library allocator was used while generating/applying a patch with a %d-byte key" % case["len"], key="libc-used")
            if mode == LG_FREE_ONLY and (s.wrap_free or s.wrap_realloc):
                raise Violation("[only free_fn custom] a release bypassed free_fn / realloc was used (key length %d)" % case["len"], key="libc-used")
        finally:
            if lib.ledger_live() == 0:
                lib.ledger_install(LG_BOTH)

    def run_case(self, lib, case, stats):
        if case.get("kind") == "pathlen":
            return self.run_pathlen(lib, stats, case)
        prev = None
        try:
            for seg in case["segments"]:
                mode = seg["mode"]
                if lib.ledger_live() != 0:
                    raise Violation("harness: blocks live at a configuration switch", key="harness")
                lib.ledger_install(mode)
                lib.ledger_reset_counters()
                stats.cls("mode:%d" % mode)
                if prev in (LG_BOTH, LG_MALLOC_ONLY, LG_FREE_ONLY) and mode in (LG_DEFAULT, LG_NULL_MEMBERS):
                    stats.cls("reset_after_custom")
                w = World(lib, stats, True)
                it = Interp(w)
                try:
                    seeds = list(seg["seeds"]) + ([BIG] if seg["big"] else [])
                    for jv in seeds:
                        w.new_root(w.build(jv))
                    it.run(seg["ops"])
                    w.check_all("the last step")
                    w.delete_all()
                finally:
                    w.close()
                stats.inner += w.steps
                s = lib.stats()
                name = MODE_NAMES[mode]
                if lib.ledger_live() != 0:
                    raise Violation("[%s] %d block(s) still live after deleting every root" % (name, s.live), key="leak")
                if s.foreign_free:
                    raise Violation("[%s] a pointer that the allocator never returned (or already released) was released" % name, key="foreign-free")
                if mode == LG_BOTH:
                    if s.wrap_malloc or s.wrap_calloc or s.wrap_realloc or s.wrap_free:
                        raise Violation("[%s] the C library allocator was called on the library's behalf (malloc %d, calloc %d, realloc %d, free %d)" % (
                            name, s.wrap_malloc, s.wrap_calloc, s.wrap_realloc, s.wrap_free), key="libc-used")
                    if s.cross_free:
                        raise Violation("[%s] a block was released through the other allocator" % name, key="cross-free")
                elif mode == LG_MALLOC_ONLY:
                    if s.wrap_malloc or s.wrap_calloc or s.wrap_realloc:
                        raise Violation("[%s] an allocation bypassed malloc_fn (malloc %d, calloc %d, realloc %d)" % (name, s.wrap_malloc, s.wrap_calloc, s.wrap_realloc),
                                        key="libc-used")
                    if s.hook_free:
                        raise Violation("[%s] harness: free hook called although not installed" % name, key="harness")
                elif mode == LG_FREE_ONLY:
                    if s.wrap_free:
                        raise Violation("[%s] a release bypassed free_fn (%d calls to free)" % (name, s.wrap_free), key="libc-used")
                    if s.wrap_realloc:
                        raise Violation("[%s] realloc used although a custom hook is installed" % name, key="realloc-used")
                    if s.hook_malloc:
                        raise Violation("[%s] harness: malloc hook called although not installed" % name, key="harness")
                else:
                    if s.hook_malloc or s.hook_free:
                        raise Violation("[%s] the previously installed hooks are still being called (malloc_fn %d, free_fn %d)" % (name, s.hook_malloc, s.hook_free),
                                        key="hooks-not-reset")
                    if s.cross_free:
                        raise Violation("[%s] a block was released through the other allocator" % name, key="cross-free")
                for f in ("print_growth", "utils"):
                    if f in it.feat:
                        stats.cls(f)
                if it.feat & {"print_growth", "utils"}:
                    stats.nontriv([mode, seg], {"configuration": name, "ops": [d for d in it.transcript if d != "skip"][:30]})
                prev = mode
        finally:
            if lib.ledger_live() == 0:
                lib.ledger_install(LG_BOTH)

    def shrink_candidates(self, case):
        segs = case["segments"]
        out = []
        for i in range(len(segs)):
            if len(segs) > 1:
                out.append({"segments": segs[:i] + segs[i + 1:]})
            ops = segs[i]["ops"]
            for j in range(len(ops)):
                out.append({"segments": segs[:i] + [dict(segs[i], ops=ops[:j] + ops[j + 1:])] + segs[i + 1:]})
        return out[:60]


PROP = C14()
