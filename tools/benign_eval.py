#!/usr/bin/env python3
"""benign_eval.py <dir-with-patch.diff> [checks...]: a change under which all properties still hold must not raise an alarm.
Applies the patch to a scratch worktree of /repo, confirms the upstream tests pass, runs the quick tier of all (or the given)
checks with VERIF_REPO on it and writes meta.json with every non-zero exit."""
import json
import os
import sys
sys.path.insert(0, os.path.dirname(os.path.abspath(__file__)))
import seeded


def main():
    d = sys.argv[1].rstrip("/")
    checks = sys.argv[2:] or ["C%02d" % i for i in range(1, 21)]
    meta = {"kind": "benign", "checks": {}}
    with seeded.Scratch("b") as wt:
        ok, out = seeded.apply_patch(wt, os.path.join(d, "patch.diff"))
        meta["patch_applies"] = ok
        if ok:
            rc, out = seeded.sh("cmake -G Ninja -S . -B _b -DENABLE_CJSON_UTILS=On >/dev/null 2>&1 && cmake --build _b 2>&1 | tail -5 && ctest --test-dir _b 2>&1 | tail -3", cwd=wt)
            meta["tests_pass"] = "100% tests passed" in out
            seeded.sh("rm -rf _b", cwd=wt)
            for c in checks:
                env = dict(os.environ, VERIF_REPO=wt)
                rc, o = seeded.sh("python3-vt check.py %s --tier quick" % c, cwd=seeded.ROOT, env=env, timeout=3600)
                lines = [l for l in o.splitlines() if l.startswith("[%s]" % c) or "VIOLATION" in l]
                meta["checks"][c] = {"exit": rc, "message": (lines[-2:] if rc else lines[-1:])}
    meta["alarms"] = sorted(c for c, v in meta["checks"].items() if v["exit"] != 0)
    json.dump(meta, open(os.path.join(d, "meta.json"), "w"), indent=1)
    print(d, "applies:", meta.get("patch_applies"), "tests:", meta.get("tests_pass"), "ALARMS:", meta["alarms"])
    for c in meta["alarms"]:
        print("   ", c, meta["checks"][c]["message"])


if __name__ == "__main__":
    main()
