"""C09 - printing into a caller buffer never writes outside it."""
import ctypes
import math

from hypothesis import strategies as st

from .. import gens, model, printing
from ..core import Prop, Violation
from ..lib import SweepOut


class C09(Prop):
    ID = "C09"
    RULE = ("trees from the C04/C05 generators (arbitrary string bytes, all number classes incl. non-finite, empty and nested "
            "containers, both formats), handed over plain or as an item with ownership flags at the root (former constant-key member, reference node, "
            "stale key) or inside; for each tree and format EVERY buffer length n from 0 to L+16 (L = length of the text of the "
            "allocating printer) is tried twice: in an exact-size heap block (ASan redzones) and in a buffer whose byte n lies on a "
            "PROT_NONE page with canaries in front. Oracle: no fault/report, canaries intact, true => buffer holds exactly text+terminator "
            "and n >= L+1, false for every n <= L, true for every n >= L+1+5, success monotone in n. evaluations counts trees; "
            "inner_iterations counts PrintPreallocated calls. non-trivial = (tree, fmt, n) with |n-(L+1)| <= 8, counted in C "
            "(distinct by construction per tree: each n is visited once); distinct trees by hash")
    ASSUMPTIONS = ["writes beyond the canary zone in front of the buffer would only be seen by ASan on the heap placement"]
    REQUIRED_CLASSES = ["formatted_nested", "string_with_escapes", "number_17_digits", "depth>=10", "empty_raw", "truthy_format_flag", "root_with_ownership_flags"]

    def budget(self, tier):
        return {"workers": 12, "examples": 1400 if tier == "quick" else 20000}

    def strategy(self, tier):
        numbers = st.one_of(gens.finite_doubles(), gens.top_doubles(), st.sampled_from([math.inf, math.nan]))
        strings = st.one_of(gens.byte_strings(12), gens.escapey_strings(), gens.invalid_utf8_strings())
        leaves = st.one_of(gens.scalars_built(strings=strings, numbers=numbers), gens.scalars_built(strings=strings, numbers=numbers),
                           st.sampled_from([b"", b"{}", b"[1, 2]", b"raw text", b"0"]).map(lambda r: ["R", r]))
        keys = st.one_of(gens.byte_strings(5), gens.ascii_keys(3), gens.escapey_strings(4))
        deep = st.tuples(st.sampled_from(["[", "{", "[{", "{[", "{{["]), st.sampled_from([8, 9, 10, 11, 12, 16, 17, 18, 24, 33]), leaves).map(
            lambda t: model.expand(["D", t[0], t[1], t[2]]))
        tree = st.one_of(deep, gens.shaped_documents(leaves, keys, max_leaves=10, min_leaves=2),
                         gens.shaped_documents(leaves, keys, max_leaves=4),
                         leaves,
                         st.lists(leaves, min_size=20, max_size=60).map(lambda l: ["A", l]),
                         # containers whose elements print as nothing at all (empty raw items): the text is shorter than the element count
                         st.tuples(st.integers(2, 16), st.booleans(), st.sampled_from([["R", b""], ["S", b""], ["A", []]])).map(
                             lambda t: ["A", [t[2]] * t[0]] if t[1] else ["O", [[b"%d" % i, t[2]] for i in range(t[0])]]))
        return st.fixed_dictionaries({"jv": tree, "root": st.sampled_from(printing.ROOT_VARIANTS), "rseed": st.integers(0, 2 ** 31)})

    def run_case(self, lib, case, stats):
        jv = case["jv"]
        import random
        variant = case.get("root", "plain")
        if any(n[0] == "S" and b"\x00" in n[1] for n in model.walk_jv(jv)):
            variant = "plain"
        rv = printing.RootVariant(lib, jv, variant, random.Random(case.get("rseed", 0)))
        tree = rv.root
        if variant != "plain":
            stats.cls("root_with_ownership_flags")
        try:
            depth = model.depth_of(jv)
            if depth >= 2:
                stats.cls("formatted_nested")
            if depth >= 10:
                stats.cls("depth>=10")
            for n in model.walk_jv(jv):
                if n[0] == "S" and any(c < 0x20 or c in (0x22, 0x5C) for c in n[1]):
                    stats.cls("string_with_escapes")
                    break
            if any(n[0] == "R" and n[1] == b"" for n in model.walk_jv(jv)):
                stats.cls("empty_raw")
            total_nt = 0
            # cJSON_bool is an int: every non-zero value means "formatted"
            for fmt in (0, 1) + ((2, -1, 4, 256) if model.count_nodes(jv) % 4 == 0 else ()):
                expect = lib.take_text(lib.cJSON_Print(tree) if fmt else lib.cJSON_PrintUnformatted(tree))
                if fmt not in (0, 1):
                    stats.cls("truthy_format_flag")
                if expect is None:
                    raise Violation("allocating printer returned NULL", key="print-null")
                if fmt == 0 and any(len(tok) >= 19 for tok in expect.replace(b",", b" ").replace(b"[", b" ").replace(b"]", b" ").split()
                                    if tok[:1] in b"-0123456789" and b"." in tok):
                    stats.cls("number_17_digits")
                so = SweepOut()
                lib.sweep_prealloc(tree, fmt, expect, len(expect), 16, ctypes.byref(so))
                stats.inner += int(so.iterations)
                total_nt += int(so.nontrivial)
                if so.code:
                    raise Violation("PrintPreallocated(fmt=%d, n=%d, %s): %s; text %r" % (
                        fmt, so.a, "guard-page buffer" if so.b == 0 else "exact heap block", so.msg.decode(), expect[:120]),
                        key="prealloc:%d" % so.code)
            if stats.nontriv(jv, {"tree": jv, "text_len": len(expect)}):
                stats.cls("boundary_calls", total_nt)
        finally:
            rv.close()
        if lib.ledger_live() != 0:
            raise Violation("PrintPreallocated allocated memory that outlives the call", key="leak")

    def shrink_candidates(self, case):
        jv = case["jv"]
        out = []
        if jv[0] in "AO":
            for i in range(len(jv[1])):
                out.append(dict(case, jv=[jv[0], jv[1][:i] + jv[1][i + 1:]]))
            for ch in jv[1]:
                out.append(dict(case, jv=ch if jv[0] == "A" else ch[1]))
        return out


PROP = C09()
