#!/usr/bin/env python3
"""benign_all.py [area ...]: runs tools/benign_eval.py for every benign/<area>-<k>/ against the checks that the area can touch.
A benign change keeps all 20 properties true; every alarm it draws is a false alarm of the machinery (to be corrected there)."""
import os
import subprocess
import sys

ROOT = os.path.dirname(os.path.dirname(os.path.abspath(__file__)))
ALL = ["C%02d" % i for i in range(1, 21)]
AREAS = {
    "threads": ["C20", "C10", "C01", "C14", "C08"],
    "parser": ["C01", "C02", "C03", "C04", "C07", "C08", "C10", "C13", "C14", "C20"],
    "printer": ["C04", "C05", "C07", "C08", "C09", "C14", "C20", "C01", "C11"],
    "edit": ["C06", "C07", "C08", "C11", "C14", "C19", "C16", "C17", "C18", "C12"],
    "memory": ALL,
    "dupcmp": ["C11", "C12", "C08", "C07", "C04", "C05", "C09", "C16", "C17", "C18", "C14", "C06"],
    "minify": ["C13", "C07", "C20", "C14"],
    "pointer": ["C15", "C16", "C17", "C14", "C07", "C20"],
    "patch": ["C16", "C17", "C14", "C19", "C20", "C07", "C15"],
    "merge": ["C17", "C18", "C19", "C14", "C20", "C07", "C16"],
    # second round
    "parser2": ["C01", "C02", "C03", "C04", "C07", "C08", "C10", "C13", "C14", "C20"],
    "printer2": ["C04", "C05", "C07", "C08", "C09", "C14", "C20", "C01", "C11", "C06"],
    "edit2": ["C06", "C07", "C08", "C11", "C14", "C19", "C16", "C17", "C18", "C12", "C15"],
    "memory2": ALL,
    "numbers": ["C01", "C02", "C03", "C04", "C05", "C09", "C10", "C12", "C16", "C17", "C18", "C06", "C08", "C20"],
    "utils_misc": ["C15", "C16", "C17", "C18", "C19", "C14", "C07", "C20"],
    "patch2": ["C16", "C17", "C14", "C19", "C20", "C07", "C15"],
    "generate2": ["C17", "C18", "C19", "C14", "C20", "C07", "C16"],
    "robust": ALL,
    "style": ALL,
    # third round (aimed at the dimensions added in build round 3)
    "scratch": ["C02", "C03", "C04", "C05", "C09", "C01"],
    "references": ["C06", "C07", "C11", "C05", "C14", "C15", "C08"],
    "nameless": ["C05", "C06", "C07", "C11", "C12", "C15", "C17", "C18", "C19"],
    "bounds": ["C01", "C02", "C03", "C10", "C20"],
    "applypatch": ["C16", "C17", "C07", "C14"],
    "mergepatch2": ["C18", "C17", "C07", "C14"],
    "pointer2": ["C15", "C16", "C17", "C14"],
    "keys": ["C06", "C07", "C08", "C11", "C12", "C14"],
}


def main():
    areas = sys.argv[1:] or list(AREAS)
    for a in areas:
        for d in sorted(os.listdir(os.path.join(ROOT, "benign"))):
            if d.rsplit("-", 1)[0] != a:
                continue
            p = subprocess.run([sys.executable, os.path.join(ROOT, "tools", "benign_eval.py"), os.path.join("benign", d)] + AREAS.get(a, ALL),
                               cwd=ROOT, stdout=subprocess.PIPE, stderr=subprocess.STDOUT, text=True)
            print("\n".join(l for l in p.stdout.splitlines() if not l.startswith("WARNING")), flush=True)
    print("BENIGN-DONE", flush=True)


if __name__ == "__main__":
    main()
