/* Guard buffers: inputs flush against a PROT_NONE page (DESIGN.md 1.1). */
#define _GNU_SOURCE
#include <sys/mman.h>
#include <unistd.h>
#include <string.h>
#include <stdio.h>
#include <stdlib.h>
#include "probe.h"

#define CANARY 0xA5

typedef struct
{
    const unsigned char *p;
    unsigned char *base;
    size_t total;
    unsigned char *canary;
    size_t canary_len;
    unsigned char *data;
    size_t data_len;
} region_t;

#define MAX_REGIONS 8192
static region_t regions[MAX_REGIONS];

static size_t page_size(void)
{
    static size_t ps = 0;
    if (ps == 0)
    {
        ps = (size_t)sysconf(_SC_PAGESIZE);
    }
    return ps;
}

static region_t *slot_for(const void *p)
{
    int i;
    for (i = 0; i < MAX_REGIONS; i++)
    {
        if (regions[i].p == (const unsigned char *)p && regions[i].base != NULL)
        {
            return &regions[i];
        }
    }
    return NULL;
}

static region_t *free_slot(void)
{
    int i;
    for (i = 0; i < MAX_REGIONS; i++)
    {
        if (regions[i].base == NULL)
        {
            return &regions[i];
        }
    }
    harness_die("guard: too many regions");
}

static unsigned char *make(const unsigned char *bytes, size_t n, int writable)
{
    size_t ps = page_size();
    size_t data_pages = (n + ps - 1) / ps;
    size_t total;
    unsigned char *base;
    unsigned char *p;
    region_t *r = free_slot();
    if (data_pages == 0)
    {
        data_pages = 1;
    }
    total = (data_pages + 2) * ps;
    base = (unsigned char *)mmap(NULL, total, PROT_READ | PROT_WRITE, MAP_PRIVATE | MAP_ANONYMOUS, -1, 0);
    if (base == MAP_FAILED)
    {
        harness_die("guard: mmap failed");
    }
    p = base + ps + data_pages * ps - n;
    memset(base + ps, CANARY, (size_t)(p - (base + ps)));
    if (n != 0 && bytes != NULL)
    {
        memcpy(p, bytes, n);
    }
    mprotect(base, ps, PROT_NONE);
    mprotect(base + ps + data_pages * ps, ps, PROT_NONE);
    if (!writable)
    {
        mprotect(base + ps, data_pages * ps, PROT_READ);
    }
    r->p = p;
    r->base = base;
    r->total = total;
    r->canary = base + ps;
    r->canary_len = (size_t)(p - (base + ps));
    r->data = base + ps;
    r->data_len = data_pages * ps;
    return p;
}

const unsigned char *guard_ro(const unsigned char *bytes, size_t n) { return make(bytes, n, 0); }
unsigned char *guard_rw(const unsigned char *bytes, size_t n) { return make(bytes, n, 1); }

int guard_check(const void *p)
{
    region_t *r = slot_for(p);
    size_t i;
    if (r == NULL)
    {
        return -1;
    }
    for (i = 0; i < r->canary_len; i++)
    {
        if (r->canary[i] != CANARY)
        {
            return 1;
        }
    }
    return 0;
}

void guard_protect(const void *p, int readonly)
{
    region_t *r = slot_for(p);
    if (r != NULL)
    {
        mprotect(r->data, r->data_len, readonly ? PROT_READ : (PROT_READ | PROT_WRITE));
    }
}

void guard_release(const void *p)
{
    region_t *r = slot_for(p);
    if (r != NULL)
    {
        munmap(r->base, r->total);
        memset(r, 0, sizeof(*r));
    }
}

/* ---------------- dead stack contents ----------------
 * What a callee finds in its not-yet-written stack slots is whatever earlier, unrelated calls left there.  The harness chooses it:
 * the 48 KB below the caller's frame are filled with one byte value (digits make an unterminated scratch copy of a number read on
 * into "more digits").  Nothing may depend on it. */
static int stack_fill_byte = 0;

void probe_set_stack_fill(int byte)
{
    stack_fill_byte = byte & 0xFF;
}

__attribute__((noinline)) void probe_stack_fill(void)
{
    volatile unsigned char area[48 * 1024];
    size_t i;

    if (stack_fill_byte == 0)
    {
        return;
    }
    for (i = 0; i < sizeof(area); i++)
    {
        area[i] = (unsigned char)stack_fill_byte;
    }
    __asm__ volatile("" : : "r"(area) : "memory");
}
