#!/usr/bin/env python3
"""setup_cmd: nothing is cached between checks (each check rebuilds from /repo); this only verifies the toolchain."""
import os
import shutil
import subprocess
import sys

sys.path.insert(0, os.path.dirname(os.path.dirname(os.path.abspath(__file__))))


def main():
    ok = True
    for tool in ("gcc", "clang", "cmake", "ninja"):
        if shutil.which(tool) is None:
            print("missing tool:", tool)
            ok = False
    try:
        import hypothesis
        print("hypothesis", hypothesis.__version__)
    except ImportError:
        print("hypothesis missing: run with python3-vt")
        ok = False
    from verif import build
    d = build.make_build_dir("setup")
    so = build.build_shim(d)
    print("shim builds:", os.path.basename(so))
    for sub in ("evidence", "replays/found"):
        os.makedirs(os.path.join(build.ROOT, sub), exist_ok=True)
    return 0 if ok else 1


if __name__ == "__main__":
    sys.exit(main())
