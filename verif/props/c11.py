"""C11 - Duplicate produces an equal, fully independent copy."""
import ctypes

from hypothesis import strategies as st

from .. import gens, model
from ..core import Prop, Violation
from ..treemodel import World
from ..treeops import Interp, pick
from .c06 import OPS_WEIGHTED, op_records, seed_trees

OPS_BEFORE = OPS_WEIGHTED + ["add_ref"] * 4 + ["create_containerref"] * 2 + ["create_stringref"] * 2 + ["add_object"] * 4
OPS_AFTER = [o for o in OPS_WEIGHTED if not o.startswith("create")] * 2 + ["create_scalar", "create_container", "delete", "delete", "set_string",
                                                                           "set_string", "set_number", "detach_idx", "replace_key"]


class C11(Prop):
    ID = "C11"
    RULE = ("(program) trees built by C06 operation programs (reference nodes, constant keys in guarded read-only memory, items with stale "
            "keys inside arrays), then Duplicate(node, 1) and Duplicate(node, 0) of a drawn root or inner node, checked for: Compare true, "
            "identical text both formats, no sibling links, no reference bit, owned pointers disjoint from every live tree, constant keys "
            "pointer-identical; then a second drawn edit/delete program runs with every live tree (source and copy) compared to the model "
            "after every step; final deletion must empty the ledger. (deep) single-child chains of N nested containers with N in "
            "{LIMIT-1, LIMIT, LIMIT+2, LIMIT+3}, LIMIT = CJSON_CIRCULAR_LIMIT. (cyclic) self-loop, 2-cycle and cycle below a healthy "
            "prefix made by writing child directly: NULL, ledger unchanged, source bytes unchanged. (wide) arrays and objects of 10^4..4*10^5 "
            "items, at the root or nested: same count, values, keys, healthy chain, independent of the source. (tail view) reference containers that share only the tail of another container's list: the copy is the owned tail. non-trivial = tree of depth >= 2 with a "
            "reference, constant key or string, followed by >= 1 mutating step; deep/cyclic shapes count by shape; distinct by case hash")
    ASSUMPTIONS = ["N = LIMIT+1 containers gets no verdict (the code counts node depth, the statement says 'nested deeper than the limit': "
                   "whether the innermost empty container of LIMIT+1 counts is left open)"]
    REQUIRED_CLASSES = ["program", "deep_accept", "deep_refuse", "deep_with_siblings", "cyclic", "cyclic_through_api_reference", "deep_const_keys", "copy_of_reference", "copy_with_const_key", "non_recursive", "wide_container", "tail_view"]

    def budget(self, tier):
        return {"workers": 14, "examples": 500 if tier == "quick" else 12000}

    def strategy(self, tier):
        prog = st.fixed_dictionaries({"kind": st.just("program"), "seeds": seed_trees(), "ops": op_records(OPS_BEFORE, 40),
                                      "which": st.integers(0, 4095), "after": op_records(OPS_AFTER, 25)})
        deep = st.fixed_dictionaries({"kind": st.just("deep"), "rel": st.sampled_from([-1, 0, 2, 3, -2, 5]), "pattern": st.integers(0, 15),
                                      "leaf": st.booleans(), "siblings": st.sampled_from([0, 0, 1, 2, 7, 1000])})
        cyc = st.fixed_dictionaries({"kind": st.just("cyclic"), "shape": st.sampled_from(["self", "two", "below_prefix", "api_self_reference", "api_reference_loop"]),
                                     "prefix": st.integers(1, 6), "pattern": st.integers(0, 7), "siblings": st.sampled_from([0, 1, 2])})
        # very long sibling lists: a copy must not recurse over siblings, lose count, or mislink the tail
        wide = st.fixed_dictionaries({"kind": st.just("wide"), "n": st.sampled_from([10000, 10001, 10002, 65536, 150000, 400000]),
                                      "object": st.booleans(), "nested": st.booleans()})
        # a reference container that shares only the TAIL of another container's list (made with cJSON_Create*Reference on an inner
        # child, or left behind when the owner gets a new first element): a well-formed tree whose copy is the owned tail
        tail = st.fixed_dictionaries({"kind": st.just("tail_view"), "jv": seed_trees(1).map(lambda l: l[0] if l else ["A", [["n"], ["t"], ["f"]]]),
                                      "k": st.integers(0, 7), "how": st.sampled_from(["create_reference", "insert_before_first"]), "object": st.booleans()})
        return gens.weighted((120, prog), (18, deep), (18, cyc), (2, wide), (8, tail))

    # ------------------------------------------------------------------
    def run_case(self, lib, case, stats):
        k = case["kind"]
        if k == "program":
            self.run_program(lib, case, stats)
        elif k == "wide":
            self.run_wide(lib, case, stats)
        elif k == "tail_view":
            self.run_tail_view(lib, case, stats)
        elif k == "deep":
            self.run_deep(lib, case, stats)
        else:
            self.run_cyclic(lib, case, stats)
        if lib.ledger_live() != 0:
            raise Violation("blocks still allocated at the end of the case", key="leak")
        s = lib.stats()
        if s.foreign_free or s.cross_free:
            raise Violation("foreign or double free", key="free")

    def run_tail_view(self, lib, case, stats):
        from .. import printing
        jv = case["jv"]
        kids = [ch if jv[0] == "A" else ch[1] for ch in jv[1]] if jv[0] in "AO" else []
        if len(kids) < 2:
            kids = [["n"], ["N", 1.5], ["S", b"x"], ["A", [["t"]]]]
        if case["object"]:
            host_jv = ["O", [[b"k%d" % i, v] for i, v in enumerate(kids)]]
        else:
            host_jv = ["A", kids]
        host = printing.build_tree(lib, host_jv)
        hk = lib.children(host)
        if case["how"] == "create_reference":
            k = 1 + case["k"] % (len(kids) - 1)
            ref = (lib.cJSON_CreateObjectReference if case["object"] else lib.cJSON_CreateArrayReference)(hk[k])
            view_jv = [host_jv[0], host_jv[1][k:]]
        else:
            # the reference is taken of the whole container; then the owner gets a new first element: the view still starts at the old one
            holder = lib.cJSON_CreateArray()
            lib.cJSON_AddItemReferenceToArray(holder, host)
            ref = lib.cJSON_DetachItemFromArray(holder, 0)
            lib.cJSON_Delete(holder)
            if case["object"]:
                view_jv = host_jv     # (objects only grow at the end: the view stays complete)
                lib.cJSON_AddItemToObject(host, b"appended", lib.cJSON_CreateNumber(3.0))
                view_jv = ["O", host_jv[1] + [[b"appended", ["N", 3.0]]]]
            else:
                lib.cJSON_InsertItemInArray(host, 0, lib.cJSON_CreateString(b"new first"))
                view_jv = host_jv
        plain = printing.build_tree(lib, view_jv)
        stats.cls("tail_view")
        stats.nontriv(["tail", jv, case["k"], case["how"], case["object"]], {"view_of": host_jv, "how": case["how"]})
        cp = cp0 = None
        try:
            cp = lib.cJSON_Duplicate(ref, 1)
            if not cp:
                raise Violation("Duplicate refused a reference container that shares the tail of another container's list (a well-formed tree, depth %d)" % model.depth_of(view_jv), key="tail-null")
            want = printing.strip_ownership(lib.dump(plain)[0])
            got, fl, _, _ = lib.dump(cp)
            if fl:
                raise Violation("the copy of a tail view has structural defects %d" % fl, key="tail-structure")
            if got != want:
                raise Violation("the copy of a tail view differs from the owned container with the same elements: %s" % model.explain_dump_diff(got, want), key="tail-content")
            if lib.shim_next(cp) or lib.shim_prev(cp) or (lib.shim_type(cp) & 256):
                raise Violation("the copy of a tail view has sibling links or the reference bit", key="tail-structure")
            cp0 = lib.cJSON_Duplicate(ref, 0)
            if not cp0 or lib.shim_child(cp0):
                raise Violation("a non-recursive duplicate of a reference container has children (or is NULL)", key="tail-nonrecursive")
        finally:
            for p in (cp, cp0, ref, plain, host):
                if p:
                    lib.cJSON_Delete(p)

    def run_wide(self, lib, case, stats):
        n = case["n"]
        arr = (ctypes.c_int * n)(*range(n))
        src = lib.cJSON_CreateIntArray(arr, n)
        if case["object"]:
            # turn the elements into members (keys k<i>) by moving them into an object
            obj = lib.cJSON_CreateObject()
            for i in range(n):
                lib.cJSON_AddItemToObject(obj, b"k%d" % i, lib.cJSON_DetachItemFromArray(src, 0))
            lib.cJSON_Delete(src)
            src = obj
        root = src
        if case["nested"]:
            root = lib.cJSON_CreateArray()
            lib.cJSON_AddItemToArray(root, lib.cJSON_CreateString(b"before"))
            lib.cJSON_AddItemToArray(root, src)
            lib.cJSON_AddItemToArray(root, lib.cJSON_CreateString(b"after"))
        stats.cls("wide_container")
        stats.nontriv(["wide", n, case["object"], case["nested"]], dict(case))
        cp = lib.cJSON_Duplicate(root, 1)
        try:
            if not cp:
                raise Violation("Duplicate returned NULL for a container of %d items (depth %d)" % (n, 2 if case["nested"] else 1), key="wide-null")
            inner = lib.cJSON_GetArrayItem(cp, 1) if case["nested"] else cp
            buf = (ctypes.c_int * (n + 16))()
            got = lib.shim_array_ints(inner, buf, n + 16)
            if got != n or ctypes.string_at(buf, 4 * n) != ctypes.string_at(arr, 4 * n):
                raise Violation("the copy of a container of %d items holds %d items or different values" % (n, got), key="wide-content")
            if case["object"] and lib.shim_members_named_by_value(inner) != -1:
                raise Violation("a member of the copy of a long object has the wrong key", key="wide-content")
            fl, _, _ = lib.walk(cp, 1, 1)
            if fl:
                raise Violation("the copy of a long container has structural defects %d" % fl, key="wide-structure")
            if lib.shim_next(cp) or lib.shim_prev(cp):
                raise Violation("the copy has sibling links", key="wide-structure")
            # independence: an append to the copy does not show in the source and vice versa
            lib.cJSON_AddItemToArray(inner, lib.cJSON_CreateNumber(-5.0)) if not case["object"] else lib.cJSON_AddNumberToObject(inner, b"k-5", -5.0)
            if lib.cJSON_GetArraySize(src) != n or lib.cJSON_GetArraySize(inner) != n + 1:
                raise Violation("appending to the copy of a long container changed the source (or was lost)", key="wide-independent")
            # (comparing objects may legitimately cost a key lookup per member: only moderate sizes are compared)
            if (n <= 20000 or not case["object"]) and not lib.cJSON_Compare(root, root, 1):
                raise Violation("a long container does not compare equal to itself", key="wide-compare")
        finally:
            lib.cJSON_Delete(root)
            if cp:
                lib.cJSON_Delete(cp)

    def run_program(self, lib, case, stats):
        w = World(lib, stats, True)
        it = Interp(w)
        try:
            for jv in case.get("seeds", []):
                w.new_root(w.build(jv))
            it.run(case["ops"])
            # candidates: nodes of roots without dangling references
            cands = []
            for r in it.clean_roots():
                def rec(n):
                    cands.append(n)
                    if not n.is_ref:
                        for ch in n.children:
                            rec(ch)
                rec(r)
            x = pick(cands, case["which"])
            made = 0
            if x is not None:
                # cJSON_bool is an int and the header says "with recurse != 0": every non-zero value asks for a recursive copy
                for recurse in ((1, 0), (2, 0), (-1, 0), (256, 0), (1, 0))[case["which"] % 5]:
                    if len(w.roots) >= 14:
                        break
                    p = lib.cJSON_Duplicate(x.ptr, recurse)
                    if not p:
                        raise Violation("Duplicate(recurse=%d) returned NULL for a well-formed tree" % recurse, key="dup-null")
                    n = it.copy_model(x, recurse)
                    it.bind_ptrs(n, p)
                    w.new_root(n)
                    made += 1
                    self.check_copy(lib, w, x, n, recurse, stats)
                w.check_all("Duplicate")
                view = w.to_jv(x)
                classes = set()
                if any(y.is_ref for y in self.subnodes(w, x)):
                    classes.add("copy_of_reference")
                if any(y.key_const and y.key is not None for y in self.subnodes(w, x)):
                    classes.add("copy_with_const_key")
                for c in classes:
                    stats.cls(c)
                stats.cls("non_recursive")
                it.feat.clear()
                it.run(case["after"])
                mutating = [d for d in it.transcript[-len(case["after"]):] if d != "skip" and not d.startswith("query")]
                if model.depth_of(view) >= 2 and (classes or any(n[0] == "S" for n in model.walk_jv(view))) and mutating:
                    stats.nontriv(case, {"copied": w_short(view), "then": mutating[:12]})
            stats.cls("program")
            stats.inner += w.steps
            w.check_all("the last step")
            w.delete_all()
        finally:
            w.close()

    def subnodes(self, w, x):
        out = []

        def rec(n):
            out.append(n)
            for ch in (w.ref_children(n) if (n.is_ref and n.t in "AO" and not n.dangling) else ([] if n.is_ref else n.children)):
                rec(ch)
        rec(x)
        return out

    def check_copy(self, lib, w, src, cp, recurse, stats):
        # no sibling links, no reference bits: part of the dump comparison done by check_all (root links checked)
        owned_copy = set(lib.owned_ptrs(cp.ptr))
        others = set()
        for r in w.roots:
            if r is not cp:
                others.update(lib.owned_ptrs(r.ptr))
        shared = owned_copy & others
        if shared:
            raise Violation("the copy shares %d owned blocks (nodes, strings or keys) with a live tree" % len(shared), key="shared-memory")
        # (constant keys: the copy MAY share them by pointer - "only constant keys remain shared"; whether it does, copies them, or
        # drops the stale ones of array elements is open.  What the flag means is checked for every live tree by check_all:
        # a flagged name is never a block of the library's allocator, an unflagged one always is.)
        if lib.tree_name_flag_conflicts(cp.ptr):
            raise Violation("a name in the copy carries a constant-key flag that contradicts where the name lives", key="const-key")
        if recurse:
            view = w.to_jv(src)
            keyless = any(n[0] == "O" and any(k == b"" for k, _ in n[1]) for n in model.walk_jv(view)) and w.keyless_member(cp)
            distinct = all(len(set(k for k, _ in n[1])) == len(n[1]) for n in model.walk_jv(view) if n[0] == "O")
            # Compare treats objects as maps: with duplicate keys even a tree and itself differ (C12 restricts to distinct keys)
            if not w.keyless_member(cp) and distinct:
                if not lib.cJSON_Compare(src.ptr, cp.ptr, 1) or not lib.cJSON_Compare(cp.ptr, src.ptr, 1):
                    raise Violation("Compare(source, copy, case_sensitive) is false", key="compare")
            for fmt in (0, 1):
                t1 = lib.take_text(lib.cJSON_PrintBuffered(src.ptr, 16, fmt))
                t2 = lib.take_text(lib.cJSON_PrintBuffered(cp.ptr, 16, fmt))
                if t1 is None or t1 != t2:
                    raise Violation("source and copy print differently (fmt=%d): %r vs %r" % (fmt, (t1 or b"")[:120], (t2 or b"")[:120]), key="print-differs")
        else:
            if lib.shim_child(cp.ptr):
                raise Violation("non-recursive duplicate has children", key="nonrecursive-children")

    def run_deep(self, lib, case, stats):
        limit = lib.circular_limit
        n = limit + case["rel"]
        root = lib.shim_make_chain(n, case["pattern"], 1 if case["leaf"] else 0, case.get("siblings", 0))
        if not root:
            raise Violation("harness: could not build the chain", key="harness")
        total = n + (1 if case["leaf"] else 0)
        before = lib.shim_chain_hash(root, total + 5)
        mark = lib.ledger_serial()
        cp = lib.cJSON_Duplicate(root, 1)
        stats.inner += 1
        try:
            if lib.shim_chain_hash(root, total + 5) != before:
                raise Violation("Duplicate modified its source (chain of %d containers)" % n, key="source-modified")
            if n <= limit:
                stats.cls("deep_accept")
                if not cp:
                    raise Violation("Duplicate refused %d nested containers (CJSON_CIRCULAR_LIMIT is %d)" % (n, limit), key="deep-refused")
                if not lib.shim_chain_equal(root, cp, total + 5):
                    raise Violation("deep copy differs from its source or shares memory / has bad links", key="deep-differs")
            elif n >= limit + 2:
                stats.cls("deep_refuse")
                if cp:
                    raise Violation("Duplicate accepted %d nested containers (CJSON_CIRCULAR_LIMIT is %d)" % (n, limit), key="deep-accepted")
                if lib.ledger_live_since(mark) != 0:
                    raise Violation("a refused Duplicate left allocations behind", key="leak")
            if case.get("siblings"):
                stats.cls("deep_with_siblings")
            if case["pattern"] & 8 and case["pattern"] & 7:
                stats.cls("deep_const_keys")
            stats.nontriv(["deep", n - limit, case["pattern"], case["leaf"], case.get("siblings", 0)], {"nested_containers": n, "limit": limit, "leaf": case["leaf"], "copied": bool(cp)})
        finally:
            if cp:
                lib.cJSON_Delete(cp)
            lib.cJSON_Delete(root)

    def run_api_cycle(self, lib, case, stats):
        """cycles that the public API itself produces: a container holding a reference to itself or to an ancestor"""
        shape = case["shape"]
        obj_like = bool(case["pattern"] & 1)
        outer = lib.cJSON_CreateObject() if obj_like else lib.cJSON_CreateArray()
        inner = lib.cJSON_CreateObject()
        lib.cJSON_AddItemToObject(inner, b"n", lib.cJSON_CreateNumber(1.0))
        if obj_like:
            lib.cJSON_AddItemToObject(outer, b"a", lib.cJSON_CreateString(b"x"))
            lib.cJSON_AddItemToObject(outer, b"inner", inner)
        else:
            lib.cJSON_AddItemToArray(outer, lib.cJSON_CreateString(b"x"))
            lib.cJSON_AddItemToArray(outer, inner)
        holder = outer if shape == "api_self_reference" else inner
        # the reference shares outer's child chain, which contains the holder: following it never ends
        if (lib.shim_type(holder) & 0xFF) == 64:
            ok = lib.cJSON_AddItemReferenceToObject(holder, b"loop", outer)
        else:
            ok = lib.cJSON_AddItemReferenceToArray(holder, outer)
        if not ok:
            lib.cJSON_Delete(outer)
            raise Violation("harness: could not add the reference", key="harness")
        mark = lib.ledger_serial()
        cp = lib.cJSON_Duplicate(outer, 1)
        stats.inner += 1
        try:
            if cp:
                raise Violation("Duplicate returned a copy of a structure that refers to itself through a reference node (%s)" % shape, key="cycle-accepted")
            if lib.ledger_live_since(mark) != 0:
                raise Violation("Duplicate of a self-referencing structure left allocations behind", key="leak")
            stats.cls("cyclic")
            stats.cls("cyclic_through_api_reference")
            stats.nontriv(["cyclic", shape, case["pattern"] & 1], {"cycle": shape})
        finally:
            if cp:
                lib.cJSON_Delete(cp)
            lib.cJSON_Delete(outer)

    def run_cyclic(self, lib, case, stats):
        shape = case["shape"]
        if shape.startswith("api_"):
            return self.run_api_cycle(lib, case, stats)
        prefix = case["prefix"]
        root = lib.shim_make_chain(prefix + 2, case["pattern"], 0, case.get("siblings", 0))
        # the innermost container is empty; close a cycle by writing child directly
        inner = lib.shim_chain_node(root, prefix + 1)
        if shape == "self":
            target = inner
        elif shape == "two":
            target = lib.shim_chain_node(root, prefix)
        else:
            target = lib.shim_chain_node(root, max(1, prefix // 2))
        before = lib.shim_chain_hash(root, prefix + 2)
        lib.shim_poke_child(inner, target)
        mark = lib.ledger_serial()
        try:
            h1 = lib.shim_chain_hash(root, 3 * (prefix + 4))
            cp = lib.cJSON_Duplicate(root, 1)
            stats.inner += 1
            h2 = lib.shim_chain_hash(root, 3 * (prefix + 4))
            if cp:
                lib.shim_poke_child(inner, None)
                raise Violation("Duplicate returned a copy of a cyclic structure (%s)" % shape, key="cycle-accepted")
            if lib.ledger_live_since(mark) != 0:
                raise Violation("Duplicate of a cyclic structure left allocations behind", key="leak")
            if h1 != h2:
                raise Violation("Duplicate modified a cyclic source", key="source-modified")
            cp0 = lib.cJSON_Duplicate(inner, 0)
            if not cp0 or lib.shim_child(cp0):
                raise Violation("non-recursive duplicate of a node inside a cycle failed or has children", key="nonrecursive-children")
            lib.cJSON_Delete(cp0)
            stats.cls("cyclic")
            stats.nontriv(["cyclic", shape, prefix, case["pattern"], case.get("siblings", 0)], {"cycle": shape, "healthy_prefix": prefix})
        finally:
            lib.shim_poke_child(inner, None)
            if lib.shim_chain_hash(root, prefix + 2) != before:
                lib.cJSON_Delete(root)
                raise Violation("source differs after the cycle was removed again", key="source-modified")
            lib.cJSON_Delete(root)


def w_short(jv):
    return jv


PROP = C11()
