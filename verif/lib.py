"""ctypes bindings for libshim.so (library under test + probe layer)."""
import ctypes as C
from ctypes import c_int, c_double, c_char_p, c_void_p, c_size_t, c_long, c_uint64, c_uint, POINTER, byref

P = c_void_p  # cJSON* handled as plain addresses (ints / None)


class LedgerStats(C.Structure):
    _fields_ = [(n, c_uint64) for n in (
        "hook_malloc", "hook_free", "hook_free_null",
        "wrap_malloc", "wrap_realloc", "wrap_calloc", "wrap_free", "wrap_free_null",
        "foreign_free", "cross_free", "requests", "failed", "live", "live_bytes", "serial")]

    def as_dict(self):
        return {n: int(getattr(self, n)) for n, _ in self._fields_}


class DumpResult(C.Structure):
    _fields_ = [("text", c_void_p), ("length", c_size_t), ("flags", c_uint),
                ("nodes", c_size_t), ("depth", c_size_t)]


class ParseOut(C.Structure):
    _fields_ = [("tree", c_void_p), ("end_off", c_long), ("err_off", c_long), ("input_intact", c_int)]


class SweepOut(C.Structure):
    _fields_ = [("code", c_int), ("a", c_long), ("b", c_long), ("c", c_long),
                ("iterations", c_uint64), ("accepted", c_uint64), ("nontrivial", c_uint64),
                ("msg", C.c_char * 160)]


class RefResult(C.Structure):
    _fields_ = [("cls", c_int), ("value_end", c_size_t), ("value_start", c_size_t),
                ("bad_offset", c_size_t), ("max_depth", c_int)]


NO_OFF = -(2 ** 63)
NEVER_STORED = NO_OFF + 1

LG_DEFAULT, LG_BOTH, LG_MALLOC_ONLY, LG_FREE_ONLY, LG_NULL_MEMBERS = 0, 1, 2, 3, 4
RC_STRICT, RC_LENIENT, RC_INVALID, RC_UNDECIDED = 0, 1, 2, 3
RC_NAMES = ["STRICT", "LENIENT", "INVALID", "UNDECIDED"]

WF_NAMES = {1: "next-cycle", 2: "prev-mismatch", 4: "tail-mismatch", 8: "root-has-siblings",
            16: "null-valuestring", 32: "null-key-in-object", 64: "bad-type", 128: "too-deep",
            256: "leaf-with-child"}


def flag_names(flags):
    return [n for b, n in WF_NAMES.items() if flags & b]


# type bits
T_FALSE, T_TRUE, T_NULL, T_NUMBER, T_STRING, T_ARRAY, T_OBJECT, T_RAW = 1, 2, 4, 8, 16, 32, 64, 128
T_REF, T_CONST = 256, 512

_SIGS = {
    # core
    "cJSON_Parse": (P, [c_char_p]),
    "cJSON_ParseWithLength": (P, [c_char_p, c_size_t]),
    "cJSON_Print": (c_void_p, [P]),
    "cJSON_PrintUnformatted": (c_void_p, [P]),
    "cJSON_PrintBuffered": (c_void_p, [P, c_int, c_int]),
    "cJSON_PrintPreallocated": (c_int, [P, c_void_p, c_int, c_int]),
    "cJSON_Delete": (None, [P]),
    "cJSON_GetArraySize": (c_int, [P]),
    "cJSON_GetArrayItem": (P, [P, c_int]),
    "cJSON_GetObjectItem": (P, [P, c_char_p]),
    "cJSON_GetObjectItemCaseSensitive": (P, [P, c_char_p]),
    "cJSON_HasObjectItem": (c_int, [P, c_char_p]),
    "cJSON_GetErrorPtr": (c_void_p, []),
    "cJSON_GetStringValue": (c_void_p, [P]),
    "cJSON_GetNumberValue": (c_double, [P]),
    "cJSON_IsInvalid": (c_int, [P]), "cJSON_IsFalse": (c_int, [P]), "cJSON_IsTrue": (c_int, [P]),
    "cJSON_IsBool": (c_int, [P]), "cJSON_IsNull": (c_int, [P]), "cJSON_IsNumber": (c_int, [P]),
    "cJSON_IsString": (c_int, [P]), "cJSON_IsArray": (c_int, [P]), "cJSON_IsObject": (c_int, [P]),
    "cJSON_IsRaw": (c_int, [P]),
    "cJSON_CreateNull": (P, []), "cJSON_CreateTrue": (P, []), "cJSON_CreateFalse": (P, []),
    "cJSON_CreateBool": (P, [c_int]), "cJSON_CreateNumber": (P, [c_double]),
    "cJSON_CreateString": (P, [c_char_p]), "cJSON_CreateRaw": (P, [c_char_p]),
    "cJSON_CreateArray": (P, []), "cJSON_CreateObject": (P, []),
    "cJSON_CreateStringReference": (P, [c_void_p]),
    "cJSON_CreateObjectReference": (P, [P]), "cJSON_CreateArrayReference": (P, [P]),
    "cJSON_CreateIntArray": (P, [c_void_p, c_int]), "cJSON_CreateFloatArray": (P, [c_void_p, c_int]),
    "cJSON_CreateDoubleArray": (P, [c_void_p, c_int]), "cJSON_CreateStringArray": (P, [c_void_p, c_int]),
    "cJSON_AddItemToArray": (c_int, [P, P]),
    "cJSON_AddItemToObject": (c_int, [P, c_void_p, P]),
    "cJSON_AddItemToObjectCS": (c_int, [P, c_void_p, P]),
    "cJSON_AddItemReferenceToArray": (c_int, [P, P]),
    "cJSON_AddItemReferenceToObject": (c_int, [P, c_void_p, P]),
    "cJSON_DetachItemViaPointer": (P, [P, P]),
    "cJSON_DetachItemFromArray": (P, [P, c_int]),
    "cJSON_DeleteItemFromArray": (None, [P, c_int]),
    "cJSON_DetachItemFromObject": (P, [P, c_void_p]),
    "cJSON_DetachItemFromObjectCaseSensitive": (P, [P, c_void_p]),
    "cJSON_DeleteItemFromObject": (None, [P, c_void_p]),
    "cJSON_DeleteItemFromObjectCaseSensitive": (None, [P, c_void_p]),
    "cJSON_InsertItemInArray": (c_int, [P, c_int, P]),
    "cJSON_ReplaceItemViaPointer": (c_int, [P, P, P]),
    "cJSON_ReplaceItemInArray": (c_int, [P, c_int, P]),
    "cJSON_ReplaceItemInObject": (c_int, [P, c_void_p, P]),
    "cJSON_ReplaceItemInObjectCaseSensitive": (c_int, [P, c_void_p, P]),
    "cJSON_Duplicate": (P, [P, c_int]),
    "cJSON_Compare": (c_int, [P, P, c_int]),
    "cJSON_Minify": (None, [c_void_p]),
    "cJSON_AddNullToObject": (P, [P, c_void_p]), "cJSON_AddTrueToObject": (P, [P, c_void_p]),
    "cJSON_AddFalseToObject": (P, [P, c_void_p]), "cJSON_AddBoolToObject": (P, [P, c_void_p, c_int]),
    "cJSON_AddNumberToObject": (P, [P, c_void_p, c_double]),
    "cJSON_AddStringToObject": (P, [P, c_void_p, c_void_p]),
    "cJSON_AddRawToObject": (P, [P, c_void_p, c_void_p]),
    "cJSON_AddObjectToObject": (P, [P, c_void_p]), "cJSON_AddArrayToObject": (P, [P, c_void_p]),
    "cJSON_SetNumberHelper": (c_double, [P, c_double]),
    "cJSON_SetValuestring": (c_void_p, [P, c_void_p]),
    "cJSON_malloc": (c_void_p, [c_size_t]), "cJSON_free": (None, [c_void_p]),
    # utils
    "cJSONUtils_GetPointer": (P, [P, c_char_p]),
    "cJSONUtils_GetPointerCaseSensitive": (P, [P, c_char_p]),
    "cJSONUtils_GeneratePatches": (P, [P, P]),
    "cJSONUtils_GeneratePatchesCaseSensitive": (P, [P, P]),
    "cJSONUtils_AddPatchToArray": (None, [P, c_char_p, c_char_p, P]),
    "cJSONUtils_ApplyPatches": (c_int, [P, P]),
    "cJSONUtils_ApplyPatchesCaseSensitive": (c_int, [P, P]),
    "cJSONUtils_MergePatch": (P, [P, P]),
    "cJSONUtils_MergePatchCaseSensitive": (P, [P, P]),
    "cJSONUtils_GenerateMergePatch": (P, [P, P]),
    "cJSONUtils_GenerateMergePatchCaseSensitive": (P, [P, P]),
    "cJSONUtils_FindPointerFromObjectTo": (c_void_p, [P, P]),
    "cJSONUtils_SortObject": (None, [P]),
    "cJSONUtils_SortObjectCaseSensitive": (None, [P]),
    # probe
    "ledger_install": (None, [c_int]), "ledger_mode": (c_int, []),
    "ledger_get": (None, [POINTER(LedgerStats)]), "ledger_reset_counters": (None, []),
    "ledger_arm": (None, [c_uint64]), "ledger_requests": (c_uint64, []),
    "ledger_live_since": (c_uint64, [c_uint64]), "ledger_serial": (c_uint64, []),
    "ledger_live": (c_uint64, []), "ledger_is_live": (c_int, [c_void_p]),
    "ledger_forget_all": (None, []),
    "probe_malloc": (c_void_p, [c_size_t]), "probe_free": (None, [c_void_p]),
    "guard_ro": (c_void_p, [c_char_p, c_size_t]), "guard_rw": (c_void_p, [c_char_p, c_size_t]),
    "guard_check": (c_int, [c_void_p]), "guard_release": (None, [c_void_p]),
    "guard_protect": (None, [c_void_p, c_int]),
    "tree_dump": (None, [P, c_int, c_int, POINTER(DumpResult)]),
    "tree_dump_release": (None, [POINTER(DumpResult)]),
    "tree_walk": (c_uint, [P, c_int, c_int, POINTER(c_size_t), POINTER(c_size_t)]),
    "tree_owned_ptrs": (c_size_t, [P, c_void_p, c_size_t]),
    "tree_const_keys": (c_size_t, [P, c_void_p, c_size_t]),
    "tree_name_flag_conflicts": (c_size_t, [P]),
    "ref_classify": (None, [c_char_p, c_size_t, c_int, POINTER(RefResult)]),
    # shim
    "shim_parse": (None, [c_int, c_char_p, c_size_t, c_int, c_int, c_int, POINTER(ParseOut)]),
    "sweep_prefixes": (None, [c_char_p, c_size_t, c_char_p, c_size_t, c_size_t, POINTER(SweepOut)]),
    "sweep_prealloc": (None, [P, c_int, c_char_p, c_size_t, c_size_t, POINTER(SweepOut)]),
    "sweep_numbers": (None, [c_void_p, c_size_t, c_int, c_double, c_double, POINTER(SweepOut), POINTER(c_double)]),
    "sweep_tokens": (None, [c_int, c_int, c_int, c_int, POINTER(SweepOut)]),
    "token_case_replay": (c_int, [c_uint64, c_int, c_int]),
    "token_text": (c_size_t, [c_uint64, c_int, c_char_p]),
    "sweep_token_count": (c_int, []),
    "sweep_unicode_escapes": (None, [c_int, c_int, c_int, POINTER(SweepOut)]),
    "shim_make_chain": (P, [c_int, c_int, c_int, c_int]),
    "shim_chain_length": (c_long, [P, c_long]),
    "shim_chain_hash": (c_uint64, [P, c_long]),
    "shim_chain_equal": (c_int, [P, P, c_long]),
    "shim_chain_node": (P, [P, c_long]),
    "shim_poke_number": (None, [P, c_double, c_int]),
    "shim_poke_child": (None, [P, P]), "shim_poke_type": (None, [P, c_int]),
    "shim_next": (P, [P]), "shim_prev": (P, [P]), "shim_child": (P, [P]),
    "shim_type": (c_int, [P]), "shim_key": (c_void_p, [P]), "shim_valuestring": (c_void_p, [P]),
    "shim_valuedouble": (c_double, [P]), "shim_valueint": (c_int, [P]),
    "shim_nesting_limit": (c_int, []), "shim_circular_limit": (c_int, []),
    "shim_sizeof_cjson": (c_size_t, []),
    "shim_set_number_value": (c_double, [P, c_double]),
    "shim_set_bool_value": (c_int, [P, c_int]),
    "shim_array_foreach_count": (c_int, [P, c_void_p, c_size_t]),
    "shim_big_sort": (c_int, [c_long, c_int, c_int, c_int, c_char_p, c_size_t]),
    "shim_array_ints": (c_long, [P, c_void_p, c_long]),
    "shim_tree_rawhash": (c_uint64, [P]),
    "ledger_set_packed": (None, [c_int]),
    "shim_set_errno": (None, [c_int]), "shim_get_errno": (c_int, []),
    "probe_set_stack_fill": (None, [c_int]),
    "shim_get_pointer_errno": (P, [P, c_char_p, c_int, c_int]),
    "shim_members_named_by_value": (c_long, [P]),
}


class Lib:
    """Thin wrapper: attribute access gives the typed C function."""

    def __init__(self, path):
        # use_errno: ctypes keeps a private errno that it swaps in before and out after EVERY foreign call, so the library sees
        # errno exactly as a C program making the same sequence of calls would (what one call leaves behind, the next one
        # inherits; the interpreter's own system calls in between cannot disturb it).  ctypes.set_errno() sets the start value.
        self.dll = C.CDLL(path, use_errno=True)
        self.optional_missing = []
        for name, (res, args) in _SIGS.items():
            try:
                f = getattr(self.dll, name)
            except AttributeError:
                self.optional_missing.append(name)
                continue
            f.restype = res
            f.argtypes = args
            setattr(self, name, f)
        self.nesting_limit = self.shim_nesting_limit()
        self.circular_limit = self.shim_circular_limit()

    # ---- conveniences -------------------------------------------------
    def stats(self):
        s = LedgerStats()
        self.ledger_get(byref(s))
        return s

    def dump(self, tree, follow_refs=1, check_root=1):
        """returns (text, flags, nodes, depth)"""
        r = DumpResult()
        self.tree_dump(tree, follow_refs, check_root, byref(r))
        text = C.string_at(r.text, r.length).decode("ascii")
        out = (text, int(r.flags), int(r.nodes), int(r.depth))
        self.tree_dump_release(byref(r))
        return out

    def walk(self, tree, follow_refs=1, check_root=1):
        n = c_size_t()
        d = c_size_t()
        fl = self.tree_walk(tree, follow_refs, check_root, byref(n), byref(d))
        return int(fl), int(n.value), int(d.value)

    def take_text(self, ptr):
        """copy a zero-terminated text returned by the library and release it with cJSON_free"""
        if not ptr:
            return None
        b = C.string_at(ptr)
        self.cJSON_free(ptr)
        return b

    def parse(self, entry, data, placement=0, require_nt=0, want_end=0):
        """data: accessible bytes. returns ParseOut"""
        po = ParseOut()
        self.shim_parse(entry, data, len(data), placement, require_nt, want_end, byref(po))
        return po

    def classify(self, data, limit=None):
        r = RefResult()
        self.ref_classify(data, len(data), self.nesting_limit if limit is None else limit, byref(r))
        return r

    def owned_ptrs(self, tree):
        n = self.tree_owned_ptrs(tree, None, 0)
        arr = (C.c_size_t * max(n, 1))()
        self.tree_owned_ptrs(tree, arr, n)
        return list(arr[:n])

    def const_keys(self, tree):
        n = self.tree_const_keys(tree, None, 0)
        arr = (C.c_size_t * max(n, 1))()
        self.tree_const_keys(tree, arr, n)
        return list(arr[:n])

    def children(self, node):
        out = []
        c = self.shim_child(node)
        while c:
            out.append(c)
            c = self.shim_next(c)
        return out
