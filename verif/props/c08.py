"""C08 - any single allocation failure makes the call fail cleanly (fault enumeration)."""
import ctypes
import random
import struct

from hypothesis import strategies as st

from .. import gens, model, printing
from ..core import Prop, Violation, h64, short
from ..lib import LG_BOTH, LG_DEFAULT, flag_names

OPS = ["parse", "print", "create", "bulk", "add_to_object", "add_to_object_cs", "add_helper", "add_ref_array", "add_ref_object",
       "duplicate", "replace_key", "set_string", "add_to_array"]

KEYS = [b"a", b"key", b"K", b"", b"a longer key with spaces", b"k/~"]
STRS = [b"", b"x", b"a string value that is longer than the others", b"\"esc\"\n", b"\xc3\xa9"]
# old and new values for cJSON_SetValuestring: also pairs whose lengths differ by more than 1 KiB in either direction
SET_STRS = STRS + [b"L" * 300, b"M" * 1028, b"N" * 1029, b"O" * 2000, b"P" * 70000, b"q" * 5, b"r" * 1030]


class Pre:
    """pre-existing trees of a scenario instance (all owned by the harness)"""

    def __init__(self):
        self.roots = []      # pointers deleted at cleanup
        self.args = {}


class C08(Prop):
    ID = "C08"
    LEVEL = "fault_enumeration"
    RULE = ("scenario = (pre-existing generated trees, one core API call with generated arguments) over: 4 parse entry points, Print/"
            "PrintUnformatted/PrintBuffered (prebuffer and format drawn), every Create* incl. references and raw, the 4 bulk array "
            "constructors, AddItemToObject/ObjectCS/Array, the 9 Add<T>ToObject helpers, AddItemReferenceToArray/Object, Duplicate (both "
            "modes), ReplaceItemInObject[CaseSensitive], SetValuestring (shorter and longer). For each scenario the call is first run "
            "fault-free to count its N allocation requests, then re-run from a rebuilt pre-state once for EVERY k in 1..N with request k "
            "refused, under custom hooks (k-th malloc_fn) and under the default allocator (k-th of malloc+realloc seen through --wrap). "
            "Oracle per k: no sanitizer report; result is the fault-free result or the documented NULL/false; on failure nothing allocated "
            "during the call is still live, every pre-existing tree prints the same text and walks clean, a parse/print/delete smoke "
            "sequence works, and deleting everything empties the ledger. evaluations = faulted executions; non-trivial = distinct "
            "(scenario, allocator, k) with k >= 2 (the suite only ever fails k = 1), distinct by construction per distinct scenario")
    ASSUMPTIONS = ["the fault window is exactly the call under test; set-up, comparison prints and tear-down run unfaulted",
                   "only core API calls named by the property; Utils functions are outside its statement"]
    REQUIRED_CLASSES = ["op:" + o for o in OPS] + ["parse_long_number_literal", "k>=2", "custom_hooks", "default_allocator", "print_several_KB"]

    def budget(self, tier):
        return {"workers": 14, "examples": 2500 if tier == "quick" else 15000}

    def strategy(self, tier):
        numbers = st.one_of(gens.finite_doubles(), st.sampled_from([1.0, 0.5, 1e300]))
        leaves = gens.scalars_built(strings=st.one_of(gens.utf8_strings(8), st.sampled_from(STRS)), numbers=numbers)
        keys = st.one_of(gens.ascii_keys(4), st.sampled_from(KEYS))
        tree = st.one_of(gens.shaped_documents(leaves, keys, max_leaves=10, min_leaves=3), gens.shaped_documents(leaves, keys, max_leaves=10, min_leaves=5),
                         gens.shaped_documents(leaves, keys, max_leaves=4), leaves)
        return st.fixed_dictionaries({
            "op": st.sampled_from(OPS + ["parse", "print", "duplicate"] * 4 + ["bulk", "create", "add_helper", "add_ref_object", "replace_key", "set_string"]),
            "jv": tree, "jv2": tree,
            "a": st.integers(0, 4095), "b": st.integers(0, 4095), "c": st.integers(0, 4095),
            "rseed": st.integers(0, 2 ** 31),
        })

    # ------------------------------------------------------------------ scenario plumbing
    def setup(self, lib, case):
        """builds the pre-state; returns Pre. Runs unfaulted."""
        pre = Pre()
        op = case["op"]
        jv, jv2 = case["jv"], case["jv2"]
        a, b, c = case["a"], case["b"], case["c"]

        def tree(j):
            p = printing.build_tree(lib, j)
            pre.roots.append(p)
            return p

        def as_object(j):
            return j if j[0] == "O" else ["O", [[b"member", j], [b"other", ["n"]]]]

        def as_array(j):
            return j if j[0] == "A" else ["A", [j, ["t"]]]

        if op == "parse":
            jt = strip_for_text(jv)
            pre.args["text"] = model.emit_text(jt, random.Random(case["rseed"]))
            pre.args["jv"] = jt
            if c % 9 == 4:
                # number literals longer than any fixed scratch buffer (an implementation may well allocate for them): at the top level
                # (what follows the part that is read is trailing text) or inside an array (accepted or rejected - either way cleanly)
                lit = [b"1" * 70, b"0." + b"3" * 75, b"-" + b"9" * 64, b"1" * 63 + b"e5", b"12345678901234567890" * 4 + b".5e-3", b"-e" + b"0" * 70][a % 6]
                pre.args["text"] = lit if (a // 6) % 2 else b"[" + pre.args["text"] + b"," + lit + b",true]"
                pre.args["long_number"] = True
        elif op == "print":
            pre.args["tree"] = tree(jv)
            if c % 7 == 3:
                # a text of several KB: the print buffer grows through several doublings (256 -> 512 -> ... -> 16384), each a request of its own
                holder = lib.cJSON_CreateArray()
                n = [600, 2100, 4200, 9000][a % 4]
                lib.cJSON_AddItemToArray(holder, lib.cJSON_CreateString(b"p" * (n // 2)))
                lib.cJSON_AddItemToArray(holder, pre.args["tree"])
                lib.cJSON_AddItemToArray(holder, lib.cJSON_CreateString((b"q\"\n" * n)[:n // 2]))
                for i in range(b % 40):
                    lib.cJSON_AddItemToArray(holder, lib.cJSON_CreateNumber(i * 1000.5))
                pre.roots.remove(pre.args["tree"])
                pre.roots.append(holder)
                pre.args["tree"] = holder
                pre.args["big"] = True
            elif c % 5 == 4:
                # printable oddities: a string reference to nothing and a key-less member print as ""
                holder = lib.cJSON_CreateObject()
                lib.cJSON_AddItemToObject(holder, b"padding", lib.cJSON_CreateString(b"x" * (a % 300)))
                lib.cJSON_AddItemToObject(holder, b"nothing", lib.cJSON_CreateStringReference(None))
                lib.cJSON_AddItemToArray(holder, lib.cJSON_CreateNumber(1.0))
                lib.cJSON_AddItemToObject(holder, b"tree", pre.args["tree"])
                pre.roots.remove(pre.args["tree"])
                pre.roots.append(holder)
                pre.args["tree"] = holder
                pre.args["oddity"] = True
        elif op in ("create", "bulk"):
            if op == "create" and a % 12 in (9, 10, 11):
                pre.args["target"] = tree(jv)
        elif op in ("add_to_object", "add_to_object_cs", "add_helper"):
            pre.args["obj"] = tree(as_object(jv))
            if op != "add_helper":
                pre.args["item"] = self.item_variant(lib, pre, tree, jv2, c, b)
        elif op == "add_to_array":
            pre.args["arr"] = tree(as_array(jv))
            pre.args["item"] = self.item_variant(lib, pre, tree, jv2, c, b)
        elif op in ("add_ref_array", "add_ref_object"):
            pre.args["cont"] = tree(as_array(jv) if op == "add_ref_array" else as_object(jv))
            pre.args["target"] = tree(jv2)
            # the referenced item may be a member in the middle of another tree (with following siblings)
            kids = lib.children(pre.args["target"])
            if kids and c % 2 == 0:
                pre.args["target"] = kids[(c // 2) % len(kids)]
        elif op == "duplicate":
            pre.args["tree"] = tree(jv)
            if c % 3 == 0:
                # ownership flags inside the duplicated tree: reference members (string / container) and constant keys
                holder = lib.cJSON_CreateObject()
                pre.roots.append(holder)
                target = tree(jv2)
                s1 = tree(["S", STRS[b % len(STRS)]])
                lib.cJSON_AddItemReferenceToObject(holder, b"ref to tree", target)
                lib.cJSON_AddItemReferenceToObject(holder, b"ref to string", s1)
                lib.cJSON_AddItemToObjectCS(holder, self.arena_key(lib, b"const key"), lib.cJSON_CreateStringReference(self.arena_key(lib, b"borrowed text")))
                lib.cJSON_AddItemToObjectCS(holder, self.arena_key(lib, b"K2"), lib.cJSON_CreateNumber(1.5))
                lib.cJSON_AddItemReferenceToArray(lib.cJSON_AddArrayToObject(holder, b"arr"), s1)
                pre.roots.remove(holder)
                pre.roots.insert(0, holder)       # references are deleted before their targets
                pre.args["tree"] = holder
        elif op == "replace_key":
            o = as_object(jv)
            if not o[1]:
                o = ["O", [[b"member", ["n"]]]]
            pre.args["obj"] = tree(o)
            pre.args["item"] = tree(jv2)
            if c % 4 == 3:
                # the replacement carries a constant key from an earlier life as a CS member
                tmp = lib.cJSON_CreateObject()
                lib.cJSON_AddItemToObjectCS(tmp, self.arena_key(lib, b"constant"), pre.args["item"])
                lib.cJSON_DetachItemViaPointer(tmp, pre.args["item"])
                lib.cJSON_Delete(tmp)
            k = o[1][b % len(o[1])][0]
            if c % 5 == 0:
                k = b"missing key"
            elif c % 5 == 1:
                k = k.swapcase()
            pre.args["key"] = model.c_bytes(k)
        elif op == "set_string":
            t = ["A", [["S", SET_STRS[a % len(SET_STRS)]], jv]]
            pre.args["tree"] = tree(t)
            pre.args["node"] = lib.cJSON_GetArrayItem(pre.args["tree"], 0)
        pre.texts = [lib.take_text(lib.cJSON_PrintUnformatted(r)) for r in pre.roots]
        pre.flags = [lib.shim_type(r) for r in pre.roots]
        pre.walk = [lib.walk(r, 1, 1)[0] for r in pre.roots]
        return pre

    def item_variant(self, lib, pre, tree, jv2, c, pre_b=0):
        """the item handed to an add call: an ordinary tree, or a reference item the caller made itself
        (cJSON_Create{String,Object,Array}Reference) - on failure it still belongs to the caller"""
        k = c % 8
        if k in (3, 4):
            # an item that already owns a key (a former member): the very name it will be added under, or another one
            it = tree(jv2)
            tmp = lib.cJSON_CreateObject()
            lib.cJSON_AddItemToObject(tmp, KEYS[(pre_b if k == 3 else pre_b + 1) % len(KEYS)], it)
            lib.cJSON_DetachItemViaPointer(tmp, it)
            lib.cJSON_Delete(tmp)
            return it
        if k < 5:
            return tree(jv2)
        if k == 5:
            ref = lib.cJSON_CreateStringReference(self.arena_key(lib, b"borrowed text"))
        else:
            target = tree(["O", [[b"m", jv2], [b"n", ["N", 1.0]]]] if k == 6 else ["A", [jv2, ["t"]]])
            ref = (lib.cJSON_CreateObjectReference if k == 6 else lib.cJSON_CreateArrayReference)(lib.shim_child(target))
        pre.roots.insert(0, ref)     # references are deleted before their targets
        return ref

    def call(self, lib, case, pre):
        """the call under test; returns (normalised result, failed?) and registers results owned by the harness in pre.roots"""
        op = case["op"]
        a, b, c = case["a"], case["b"], case["c"]
        A = pre.args
        if op == "parse":
            entry = a % 4
            po = lib.parse(entry, A["text"] + b"\x00", b & 1, (b >> 1) & 1, (b >> 2) & 1)
            if po.tree:
                pre.roots.append(po.tree)
                return lib.dump(po.tree)[0], False
            return None, True
        if op == "print":
            k = a % 4
            if k == 0:
                t = lib.take_text(lib.cJSON_Print(A["tree"]))
            elif k == 1:
                t = lib.take_text(lib.cJSON_PrintUnformatted(A["tree"]))
            else:
                t = lib.take_text(lib.cJSON_PrintBuffered(A["tree"], [0, 1, 16, 255, 256, 1000, 5000, 8192, 70000, 3][b % 10], c & 1))
            return t, t is None
        if op == "create":
            k = a % 12
            s = STRS[b % len(STRS)]
            if k == 0:
                p = lib.cJSON_CreateNull()
            elif k == 1:
                p = lib.cJSON_CreateTrue()
            elif k == 2:
                p = lib.cJSON_CreateFalse()
            elif k == 3:
                p = lib.cJSON_CreateBool(b & 1)
            elif k == 4:
                p = lib.cJSON_CreateNumber(float(b) / 8)
            elif k == 5:
                p = lib.cJSON_CreateString(s)
            elif k == 6:
                p = lib.cJSON_CreateRaw(s)
            elif k == 7:
                p = lib.cJSON_CreateArray()
            elif k == 8:
                p = lib.cJSON_CreateObject()
            elif k == 9:
                text = lib.shim_key(A["target"]) or lib.shim_valuestring(A["target"]) or None
                if text is None:
                    # a string reference to nothing (a string item without text) is outside every domain: a constructor that refuses it
                    # is as good as one that returns such an item (no verdict when the fault-free call refuses)
                    pre.args["oddity"] = True
                p = lib.cJSON_CreateStringReference(text)
            elif k == 10:
                p = lib.cJSON_CreateArrayReference(A["target"])
            else:
                p = lib.cJSON_CreateObjectReference(A["target"])
            if p:
                pre.roots.insert(0, p)   # references are deleted before their targets (not required, but tidy)
                return lib.dump(p, 0 if k == 9 else 1, 1)[0], False
            return None, True
        if op == "bulk":
            count = b % 6
            kind = a % 4
            if kind == 0:
                arr = (ctypes.c_int * max(count, 1))(*[(c + i) * 7 - 3 for i in range(count)])
                p = lib.cJSON_CreateIntArray(arr, count)
            elif kind == 1:
                arr = (ctypes.c_float * max(count, 1))(*[(c + i) / 4.0 for i in range(count)])
                p = lib.cJSON_CreateFloatArray(arr, count)
            elif kind == 2:
                arr = (ctypes.c_double * max(count, 1))(*[(c + i) / 3.0 for i in range(count)])
                p = lib.cJSON_CreateDoubleArray(arr, count)
            else:
                vals = [STRS[(c + i) % len(STRS)] for i in range(count)]
                if count and c % 7 == 3:
                    # a missing (NULL) entry: what the constructor makes of it is not specified (today: the call fails), but a
                    # refused request must still not crash it or leave anything behind
                    vals[(c // 7) % count] = None
                    pre.args["oddity"] = True
                arr = (ctypes.c_char_p * max(count, 1))(*vals)
                p = lib.cJSON_CreateStringArray(arr, count)
            if p:
                pre.roots.append(p)
                return lib.dump(p)[0], False
            return None, True
        if op in ("add_to_object", "add_to_object_cs"):
            key = KEYS[b % len(KEYS)]
            if op == "add_to_object_cs":
                kp = self.arena_key(lib, key)
                r = lib.cJSON_AddItemToObjectCS(A["obj"], kp, A["item"])
            else:
                r = lib.cJSON_AddItemToObject(A["obj"], key, A["item"])
            if r:
                pre.roots.remove(A["item"])
            return bool(r), not r
        if op == "add_to_array":
            r = lib.cJSON_AddItemToArray(A["arr"], A["item"])
            if r:
                pre.roots.remove(A["item"])
            return bool(r), not r
        if op == "add_helper":
            key = KEYS[b % len(KEYS)]
            s = STRS[c % len(STRS)]
            k = a % 9
            o = A["obj"]
            p = [lambda: lib.cJSON_AddNullToObject(o, key), lambda: lib.cJSON_AddTrueToObject(o, key), lambda: lib.cJSON_AddFalseToObject(o, key),
                 lambda: lib.cJSON_AddBoolToObject(o, key, c & 1), lambda: lib.cJSON_AddNumberToObject(o, key, c / 16.0),
                 lambda: lib.cJSON_AddStringToObject(o, key, s), lambda: lib.cJSON_AddRawToObject(o, key, s),
                 lambda: lib.cJSON_AddObjectToObject(o, key), lambda: lib.cJSON_AddArrayToObject(o, key)][k]()
            return bool(p), not p
        if op == "add_ref_array":
            r = lib.cJSON_AddItemReferenceToArray(A["cont"], A["target"])
            return bool(r), not r
        if op == "add_ref_object":
            r = lib.cJSON_AddItemReferenceToObject(A["cont"], KEYS[b % len(KEYS)], A["target"])
            return bool(r), not r
        if op == "duplicate":
            p = lib.cJSON_Duplicate(A["tree"], 0 if a % 5 == 0 else 1)
            if p:
                pre.roots.append(p)
                return lib.dump(p)[0], False
            return None, True
        if op == "replace_key":
            f = lib.cJSON_ReplaceItemInObjectCaseSensitive if a & 1 else lib.cJSON_ReplaceItemInObject
            r = f(A["obj"], A["key"], A["item"])
            if r:
                pre.roots.remove(A["item"])
            return bool(r), not r
        if op == "set_string":
            s = SET_STRS[b % len(SET_STRS)]
            r = lib.cJSON_SetValuestring(A["node"], s)
            return bool(r), not r
        raise ValueError(op)

    def arena_key(self, lib, key):
        if not hasattr(self, "_arena"):
            self._arena = {}
        if key not in self._arena:
            self._arena[key] = lib.guard_ro(key + b"\x00", len(key) + 1)
        return self._arena[key]

    def cleanup(self, lib, pre):
        for r in pre.roots:
            lib.cJSON_Delete(r)
        pre.roots = []

    def smoke(self, lib):
        po = lib.parse(0, b'{"a":[1,2.5,"x"],"b":null}\x00', 1, 0, 0)
        if not po.tree:
            return "parse fails after the fault"
        t = lib.take_text(lib.cJSON_PrintUnformatted(po.tree))
        lib.cJSON_Delete(po.tree)
        if t != b'{"a":[1,2.5,"x"],"b":null}':
            return "print after the fault gives %r" % t
        return None

    # ------------------------------------------------------------------
    def run_case(self, lib, case, stats):
        op = case["op"]
        stats.cls("op:" + op)
        key = h64(case)
        first_time = key not in getattr(self, "_seen", set())
        if not hasattr(self, "_seen"):
            self._seen = set()
        self._seen.add(key)
        total_k2 = 0
        try:
            for mode in (LG_BOTH, LG_DEFAULT):
                printing.with_hooks(lib, mode)
                lib.ledger_reset_counters()
                stats.cls("custom_hooks" if mode == LG_BOTH else "default_allocator")
                # fault-free run
                pre = self.setup(lib, case)
                if pre.args.get("big"):
                    stats.cls("print_several_KB")
                lib.ledger_arm(0)
                res0, failed0 = self.call(lib, case, pre)
                n = int(lib.ledger_requests())
                self.cleanup(lib, pre)
                if lib.ledger_live() != 0:
                    raise Violation("%s: fault-free run leaks" % op, key="leak-nofault")
                if failed0 and pre.args.get("oddity"):
                    # a string item without text / a name-less member are not JSON values: a printer may refuse them
                    # (outside every property's domain); nothing to enumerate then
                    stats.cls("oddity_refused_fault_free_(no_verdict)")
                    continue
                if pre.args.get("long_number"):
                    stats.cls("parse_long_number_literal")
                # (a text with a number literal of more than 63 characters may be accepted or rejected - C03 leaves it open; either way cleanly)
                if failed0 and not pre.args.get("long_number") and op in ("parse", "print", "create", "bulk", "duplicate", "add_helper", "add_ref_array", "add_ref_object"):
                    raise Violation("%s: fails without any allocation failure" % op, key="fail-nofault")
                for k in range(1, n + 1):
                    pre = self.setup(lib, case)
                    mark = lib.ledger_serial()
                    live_before = lib.ledger_live()
                    s0 = lib.stats()
                    lib.ledger_arm(k)
                    res, failed = self.call(lib, case, pre)
                    lib.ledger_arm(0)
                    stats.inner += 1
                    stats.evaluations += 1
                    s1 = lib.stats()
                    where = "%s, %s, request %d of %d refused" % (op, "custom hooks" if mode == LG_BOTH else "default allocator", k, n)
                    if s1.failed == s0.failed:
                        # the call took a path with fewer requests: it must have completed normally
                        pass
                    if failed:
                        if s1.failed == s0.failed and not failed0:
                            raise Violation("%s: the call failed although no request was refused" % where, key="spurious-failure")
                        leaked = lib.ledger_live_since(mark)
                        if leaked:
                            raise Violation("%s: the call reported failure but %d block(s) allocated during it are still live" % (where, leaked),
                                            key="leak:" + op)
                        for r, ty in zip(pre.roots, pre.flags):
                            if lib.shim_type(r) != ty:
                                raise Violation("%s: the type/ownership flags of a pre-existing item changed from 0x%x to 0x%x although the call failed" % (
                                    where, ty, lib.shim_type(r)), key="flags-modified:" + op)
                        for r, t, fl0 in zip(pre.roots, pre.texts, pre.walk):
                            fl, _, _ = lib.walk(r, 1, 1)
                            if fl != fl0:
                                raise Violation("%s: a pre-existing tree has structural defects %s after the failed call" % (where, flag_names(fl)),
                                                key="damaged:" + op)
                            now = lib.take_text(lib.cJSON_PrintUnformatted(r))
                            if now != t:
                                raise Violation("%s: a pre-existing tree prints %r after the failed call, %r before" % (where, (now or b"")[:100], (t or b"")[:100]),
                                                key="modified:" + op)
                    else:
                        if res != res0:
                            raise Violation("%s: the call reported success but its result differs from the fault-free result" % where, key="wrong-result:" + op)
                    if s1.foreign_free != s0.foreign_free or s1.cross_free != s0.cross_free:
                        raise Violation("%s: foreign or double free" % where, key="double-free:" + op)
                    why = self.smoke(lib)
                    if why:
                        raise Violation("%s: library unusable afterwards: %s" % (where, why), key="unusable")
                    self.cleanup(lib, pre)
                    s2 = lib.stats()
                    if s2.foreign_free != s0.foreign_free or s2.cross_free != s0.cross_free:
                        raise Violation("%s: foreign or double free while deleting the trees afterwards" % where, key="double-free:" + op)
                    if lib.ledger_live() != 0:
                        raise Violation("%s: %d block(s) still live after deleting every tree" % (where, lib.ledger_live()), key="leak-after:" + op)
                    if k >= 2:
                        total_k2 += 1
        finally:
            lib.ledger_arm(0)
            if lib.ledger_live() == 0:
                lib.ledger_install(LG_BOTH)
        if total_k2:
            stats.cls("k>=2", total_k2)
            if first_time:
                stats.enumerated_nontrivial += total_k2
                if len(self._seen) in (3, 20, 60, 150, 400):
                    stats.samples.append(short({"scenario": {"op": op, "tree": case["jv"], "a": case["a"], "b": case["b"]}, "faulted_runs_k>=2": total_k2}))

    def shrink_candidates(self, case):
        out = []
        for f in ("jv", "jv2"):
            j = case[f]
            if j[0] in "AO":
                for i in range(len(j[1])):
                    out.append(dict(case, **{f: [j[0], j[1][:i] + j[1][i + 1:]]}))
        return out[:30]


def strip_for_text(jv):
    """text needs valid UTF-8 strings; numbers via repr"""
    t = jv[0]
    if t == "S":
        try:
            jv[1].decode("utf-8")
            return jv
        except UnicodeDecodeError:
            return ["S", b"bytes"]
    if t == "A":
        return ["A", [strip_for_text(x) for x in jv[1]]]
    if t == "O":
        out = []
        for k, v in jv[1]:
            try:
                k.decode("utf-8")
            except UnicodeDecodeError:
                k = b"key"
            out.append([k, strip_for_text(v)])
        return ["O", out]
    return jv


PROP = C08()
