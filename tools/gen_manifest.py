#!/usr/bin/env python3
"""Writes /verif/MANIFEST.json from the table below (kept in one place so the file is always valid)."""
import json
import os

ROOT = os.path.dirname(os.path.dirname(os.path.abspath(__file__)))

CHECKS = {
    "C01": dict(
        fuzz=True,
        technique="coverage-guided fuzzing (libFuzzer, ASan/UBSan, guard pages) + Hypothesis-generated texts with an exhaustive prefix/edit sweep",
        engine="libFuzzer fz_parse + hypothesis/ctypes shim",
        text="Generated-input search for memory-safety and cleanliness of all four parse entry points: byte-level fuzzing with the input "
             "flush against a PROT_NONE page or in an exact-size heap block, every prefix and every single-byte structural edit of generated "
             "valid texts, nesting shapes up to 10^6; every result must be NULL or a tree that walks clean, prints and deletes to an empty "
             "allocation ledger. Exploration: no report on anything generated.",
        note="Trusted: ASan/UBSan/guard pages as detectors, the ledger allocator. Termination is checked by libFuzzer's per-input timeout only. x86-64 glibc only.",
        ref="3 C01"),
    "C02": dict(
        technique="property-based testing (Hypothesis): grammar-generated RFC 8259 texts vs expected dumps from a Python value model",
        text="Generated-input search: every generated valid text must be accepted by all four entry points (9 entry/flag/"
             "terminator variants, guard-page and exact-size heap placement) and the decoded tree must equal, byte for byte and "
             "bit for bit, the dump predicted by an independent Python model (correctly rounded float(), UTF-8 of the code points). "
             "Exploration, not proof: holds on everything generated. Every case is also parsed in its compact spelling; all documents of up to two members over a few one-byte values and names are enumerated.",
        note="Trusted: Python float()/UTF-8 codec as the reference decoder, the native dumper, ASan/UBSan. Only the C locale exists here.",
        ref="3 C02"),
    "C03": dict(
        fuzz=True,
        technique="differential testing against an independent dialect recogniser: class-targeted corruptions (Hypothesis), exhaustive token-sequence enumeration, libFuzzer",
        engine="hypothesis/ctypes shim + C enumeration + libFuzzer fz_parse",
        text="Every text the independent recogniser classifies as outside the dialect (RFC 8259 plus the four permitted leniencies, read "
             "generously) must be rejected by every entry point with an empty allocation ledger; strict texts must be accepted. Inputs: one "
             "generator per must-reject class of the statement, single-edit corruptions, ALL token sequences up to length 5/7 (exhaustive to "
             "that bound), coverage-guided fuzzing, nesting to 10^6. Exploration (token space exhaustive to the bound). Dead stack below every parse is filled with a drawn byte value (digits), so nothing depends on stale scratch contents.",
        note="Trusted: native/dialect.c (written from the RFC, cross-checked against Python json in C05), ledger. Lenient/undecided texts get no verdict.",
        ref="3 C03"),
    "C04": dict(
        fuzz=True,
        technique="property-based round-trip testing (Hypothesis) over built and parsed trees x all print variants x both allocator configurations; dense number sweep; libFuzzer fixed-point oracle",
        engine="hypothesis/ctypes shim + libFuzzer fz_parse",
        text="Round-trip and fixed-point relations checked on generated trees (arbitrary string bytes, doubles from boundary pools incl. the "
             "top of the range) for Print/PrintUnformatted/PrintBuffered(14 prebuffer sizes)/PrintPreallocated under custom hooks and the "
             "default allocator; print histories (constant keys at re-used addresses), strings and texts up to several MB, ownership flags; plus "
             "single-number sweeps in C and the fixed point on fuzzer-made trees. Exploration.",
        note="Trusted: the dumper, Python arithmetic for the tolerance rule. Only '.' as decimal point (C locale).",
        ref="3 C04"),
    "C05": dict(
        technique="property-based testing (Hypothesis) with two independent strict parsers (dialect recogniser, Python json) and a metamorphic formatted/unformatted relation",
        text="Every printed text must be classified STRICT by the recogniser and accepted by Python's strict json, decode to the model value "
             "(non-finite -> null), agree across all print variants/prebuffers/allocators, satisfy strip(formatted) == unformatted, and "
             "print int-range integers as plain decimal. Exploration. Also objects with a name-less member (no verdict unless printed).",
        note="Trusted: Python json as reference decoder. Locale other than C cannot be exercised in this sandbox.",
        ref="3 C05"),
    "C06": dict(
        technique="model-based stateful testing (Hypothesis operation programs) against a Python list/map model, full structural dump after every step",
        text="Generated call histories (<= 60 late-bound ops over all construction/edit/query calls incl. NULL arguments, out-of-range indices, "
             "case-variant and aliasing keys, self-insertion, references, constant keys, bulk constructors) are executed by the library and by "
             "an ordered-list model side by side; after every step every live tree's canonical dump (order, keys, values, flags, next/prev/tail "
             "links) and every return value must match; plus edit histories on containers of up to 100000 items with the whole value "
             "sequence compared after every step. Exploration over histories.",
        note="Trusted: the Python model (written from the property and the header), the dumper. Not generated: insert beyond the end, key-less members, editing through references.",
        ref="3 C06"),
    "C07": dict(
        technique="model-based stateful testing (Hypothesis programs) with a tracking allocator (ledger), ASan, read-only guarded borrowed memory, both allocator configurations",
        text="C06 programs extended with parse/print/compare/minify/duplicate, references, constant keys in read-only pages, inter-container moves "
             "and aliasing key arguments, run under custom hooks and under the default allocator (seen through --wrap); final deletion must "
             "empty the ledger with no foreign/double/cross free and no sanitizer report, and every live tree must equal the model after every "
             "step (so releasing a reference never changes its target). Exploration over histories. Utility calls inside the histories run on documents with constant keys and on documents holding references (members replaced, removed, copied, moved - never edited through), with case-flipped moves of a value into itself; references filed under the referenced item's own key pointer.",
        note="Trusted: ledger allocator, ASan, page protection. LeakSanitizer is off inside the Python host.",
        ref="3 C07"),
    "C08": dict(
        level="fault_enumeration",
        technique="fault injection enumerated exhaustively over the failing allocation index for Hypothesis-generated API scenarios, both allocator configurations",
        text="For every generated scenario (pre-state trees + one core API call) every allocation request k = 1..N of the call is made to fail "
             "in turn (custom hooks and default allocator); the call must return the fault-free result or its documented NULL/false, leave no "
             "allocation of its own, leave every pre-existing tree printing the same text and structurally sound, and the library usable. "
             "Exhaustive in k per scenario, exploration over scenarios.",
        note="Trusted: ledger/--wrap fault injector (fault window = the call under test only), ASan.",
        ref="3 C08"),
    "C09": dict(
        technique="property-based testing (Hypothesis trees) with an exhaustive sweep over every buffer length, guard pages + ASan redzones + canaries",
        text="For each generated tree and format, every n in [0, L+16] is tried in an exact-size heap block and flush against a PROT_NONE "
             "page; return value, buffer contents, the five-byte margin and monotonicity are checked against the allocating printer's text. "
             "Exhaustive in n per tree, exploration over trees.",
        note="Trusted: ASan redzones, page protection, canaries.",
        ref="3 C09"),
    "C10": dict(
        fuzz=True,
        technique="property-based testing (Hypothesis framings of valid/corrupted texts) + libFuzzer, with the value end computed by an independent recogniser",
        engine="hypothesis/ctypes shim + libFuzzer fz_parse",
        text="Relations between result, return_parse_end, cJSON_GetErrorPtr and the buffer are checked for every generated framing (27 tail "
             "shapes incl. terminators, garbage, bytes after the terminator; empty buffers) and for fuzz inputs; the termination verdict is "
             "derived from an independently computed end of value. Exploration.",
        note="Tails with bytes after an in-buffer terminator get no accept/reject verdict (statement silent). Trusted: dialect.c for the value end.",
        ref="3 C10"),
    "C11": dict(
        technique="model-based stateful testing (Hypothesis programs + Duplicate + further edits), pointer-disjointness checks, deep-spine and cyclic shapes built natively",
        text="Duplicate of generated trees (references, constant keys, stale keys) is checked for equality (Compare, text), absence of sibling "
             "links and reference bits, pointer-disjointness from every live tree, shared constant keys; a second generated edit/delete program "
             "then runs with source and copy compared to the model after every step. Spines of LIMIT-1..LIMIT+3 containers (with and without "
             "siblings) and three cyclic shapes must be accepted/refused as stated without leaks or source modification; containers of "
             "10^4..4*10^5 items must be copied completely and independently. Exploration. Also reference containers that share only the tail of another list.",
        note="N = CJSON_CIRCULAR_LIMIT+1 containers gets no verdict (statement ambiguous by one). Trusted: model, ledger, ASan.",
        ref="3 C11"),
    "C12": dict(
        technique="property-based metamorphic/differential testing (Hypothesis pairs: 21 mutation relations) against a reference equality on Python models",
        text="For generated pairs (tree, mutation of it | independent tree) Compare(a,b,cs), Compare(b,a,cs) and the reference equality must agree "
             "for both case modes (case-insensitive only when keys stay distinct after folding); reflexivity, NULL/invalid arguments, "
             "ownership-flag variants (constant keys, string references, parsed vs built) and non-modification are checked. Exploration. Pairs on the edge of the tolerance (a power of two and the number two ulps below) are judged for symmetry only.",
        note="Trusted: model.eq_set (written from the statement). Number perturbations between 1 and 4 ulp are not generated.",
        ref="3 C12"),
    "C13": dict(
        fuzz=True,
        technique="property-based testing (Hypothesis token streams with generated comments/blanks, exact expected output) + libFuzzer fz_minify with guard pages",
        engine="hypothesis/ctypes shim + libFuzzer fz_minify",
        text="Valid documents are emitted as token sequences with generated blanks and //, /* */ comments between tokens; the minified buffer must "
             "equal the token concatenation byte for byte, parse to the expected value and be a fixed point of Minify. Arbitrary zero-terminated "
             "bytes (Hypothesis + coverage-guided fuzzing) run in a buffer whose terminator is the last accessible byte. Exploration. Documents nested up to the parser's limit.",
        note="Trusted: page protection/canaries, the dialect recogniser (for the strict-input oracle inside the fuzz target).",
        ref="3 C13"),
    "C14": dict(
        technique="model-based stateful testing (Hypothesis histories of hook configurations + operation programs incl. Utils) with link-time interposition of malloc/realloc/calloc/free and a tracking allocator",
        text="Histories of 1-3 segments, each under one of five hook configurations (default, both custom, only malloc_fn, only free_fn, NULL "
             "members; custom->default resets included), run C07 programs extended with cJSON_Utils calls and all print variants; per "
             "configuration the counters of the hook side and of the --wrap'ped libc side must show that every request/release went where the "
             "property says, realloc is unused once a hook is custom, nothing foreign is released and the ledger ends empty. Exploration. Utility calls also on documents with constant keys (document-derived patches) and on documents whose members are references.",
        note="Trusted: --wrap sees every allocator reference of cJSON.c/cJSON_Utils.c in the test build; free_fn(NULL) counts as a legal no-op.",
        ref="3 C14"),
    "C15": dict(
        technique="differential testing (Hypothesis documents x pointer strings: true pointers, single edits, free strings) against an RFC 6901 reference resolver; exhaustive (root,node) pairs per document for construction",
        text="GetPointerCaseSensitive must return exactly the node the Python RFC 6901 resolver designates (by position) or NULL, for true "
             "pointers, one-edit corruptions (digits/letters/sign/leading zero/escape swaps/2^64+k/case flips) and free strings over the "
             "pointer alphabet, EVERY single-byte token and a third of all two-byte tokens on arrays of up to 260 elements, each lookup under "
             "errno 0 / ERANGE / EINVAL, on documents with awkward keys; chains of 998..3000 levels; FindPointerFromObjectTo is checked for every "
             "(container, node) pair of each document: exact escaped text, inverse, allocator. Exploration. Also constant keys that are the very memory of the pointer string, and reference containers over stand-alone items.",
        note="Trusted: verif/rfc.py (validated on the 132 conformance cases shipped with the repository). Keys distinct per object.",
        ref="3 C15"),
    "C16": dict(
        fuzz=True,
        technique="differential testing against an RFC 6902 reference evaluator with patches generated against the evolving document (Hypothesis), robustness by arbitrary patches and libFuzzer fz_patch",
        engine="hypothesis/ctypes shim + libFuzzer fz_patch",
        text="For generated (document, patch) pairs - valid operations at drawn locations and 18 failure classes, drawn against the evolving "
             "reference state - the status must be 0 exactly when the Python RFC 6902 evaluator succeeds and the document must then equal its "
             "result; for arbitrary JSON values as patch (incl. grafted junk, invalid pointers, fuzzed texts) nothing may crash or leak and the "
             "document must stay structurally sound. Exploration. Also documents with a borrowed (reference) member that the patch copies and then edits in the copy; the owner's tree must stay unchanged.",
        note="Trusted: verif/rfc.py. 'remove' of the whole document is excluded from conformance (left open by the property).",
        ref="3 C16"),
    "C17": dict(
        technique="property-based round-trip testing (Hypothesis pairs: edits of a document or independent) with an independent RFC 6902 evaluator and the library's own applier",
        text="The generated patch must be a well-formed add/remove/replace array, transform 'from' into 'to' under the Python reference and "
             "under the library itself, be empty iff the documents are equal, and leave both inputs equal in value, structurally sound and "
             "still accepting appends in every container; then the inputs are edited through the core API and a second patch is generated and "
             "judged the same way. Numbers include both ends of the double range; documents to 1500 levels; every composed path length 1..300. Exploration. The patch is also applied to 'from' rebuilt in its original member order; documents with names that are beginnings of one another.",
        note="Trusted: verif/rfc.py, model.eq_set. Numbers on a 1/8 grid so tolerance and exact equality coincide.",
        ref="3 C17"),
    "C18": dict(
        technique="differential testing against an RFC 7396 reference (Hypothesis (target, patch) and (from, to) pairs, object-heavy with case-variant keys)",
        text="MergePatchCaseSensitive must equal the Python RFC 7396 reference on independent and target-derived patches (nulls at depth, "
             "non-object patches/targets); the generated merge patch applied by the reference and by the library must turn 'from' into 'to' "
             "(no null object members in 'to'), be NULL only when nothing changes, and leave both inputs intact and usable; a second generation "
             "after editing the inputs; object chains to 1500 levels; patch values too deep to be copied (memory safety only). Exploration. Numbers at both ends of the double range.",
        note="Trusted: verif/rfc.py (RFC 7396 appendix examples pass). Keys distinct per object.",
        ref="3 C18"),
    "C19": dict(
        technique="model-based stateful testing: sort operations and internally sorting utilities interleaved with C06 edit programs, model re-synchronised by node identity",
        text="Each SortObject[CaseSensitive] call on any object of any live tree must give non-decreasing keys over exactly the same member "
             "nodes and be idempotent; after it and after patch 'test', GeneratePatches, GenerateMergePatch, every live tree must equal the "
             "list/map model after every further append/insert/detach/replace/print/delete; objects of 1000..400000 members in seven key orders "
             "are sorted (directly or through a utility) and checked natively for order, count, chain, tail link, append, idempotence. Exploration over histories. Families of names with long common beginnings (also in monotone insertion order), patch test against near copies, detach/insert after a sort.",
        note="Order among equal keys is not asserted (no stability claim). Trusted: the C06 model.",
        ref="3 C19"),
    "C20": dict(
        technique="property-based generation of thread programs (Hypothesis) executed by a ThreadSanitizer-instrumented driver: happens-before race detection + differential solo-vs-concurrent digests",
        engine="hypothesis + native/tsan_driver.c (gcc -fsanitize=thread)",
        text="2-6 generated thread-private programs (parse of pooled and generated texts, all print variants, edits, compare, duplicate, minify, "
             "pointer/patch/merge/sort utilities; in half of the cases under custom allocation hooks installed before the threads start, with a "
             "thread's k-th request inside a core call refused) are run alone, concurrently for 3 rounds (the first before anything else touched "
             "the library) with library and driver instrumented by ThreadSanitizer, and 2-4 times in one thread with the calls of all programs "
             "interleaved in a generated order (schedule owned by the harness at call granularity). Any report other than a data race on the "
             "documented global error position (located by behaviour, not by name), or any digest differing from the solo run, is a violation. "
             "Exploration over programs; concurrent schedules are whatever the OS produces (race detection is happens-before based, so it does not "
             "need the bad interleaving). In half of the cases the threads' text buffers are adjacent slices of one block (a read at buffer+length is a reported race); texts cut in the middle of a token.",
        note="The harness owns the schedule only at call granularity (interleaved rounds); inside calls only instrumented code is observed and race-free but order-dependent defects are visible only to the differential oracle. Allocation failures inside cJSON_Utils calls are not injected (the library does not promise to survive them), so shared state that is written only on such a path is out of reach.",
        ref="3 C20"),
}

PENDING = {
}

ALL = ["C%02d" % i for i in range(1, 21)]


def main():
    checks = []
    for pid in ALL:
        if pid not in CHECKS:
            continue
        c = CHECKS[pid]
        checks.append({
            "property_id": pid,
            "quick_cmd": "python3-vt check.py %s --tier quick" % pid,
            "thorough_cmd": "python3-vt check.py %s --tier thorough" % pid,
            "evidence_file": "/verif/evidence/%s.json" % pid,
            "replay_cmd_template": "python3-vt check.py %s --replay {path}" % pid,
            "engine": c.get("engine", "hypothesis+ctypes shim (ASan/UBSan)"),
            "level_claimed": {"category": c.get("level", "exploration"), "text": c["text"], "design_ref": "DESIGN.md section " + c["ref"]},
            "level_note": c["note"],
            "technique": c["technique"],
        })
    na = []
    for pid in ALL:
        if pid not in CHECKS:
            na.append({"property_id": pid, "reason": PENDING.get(pid, "check not built yet (work in progress; the technique applies, see DESIGN.md section 3)")})
    m = {
        "version": 1,
        "setup_cmd": "python3-vt tools/setup.py",
        "hooks": {
            "guard": "CJSON_VERIF",
            "enable": "checks compile /repo/cJSON.c and /repo/cJSON_Utils.c with -DCJSON_VERIF; no source hooks exist (everything is observed through the public API, cJSON_InitHooks, link-time --wrap of the allocator, guard pages and sanitizers)",
            "baseline_off_cmd": "sh tools/baseline.sh",
            "source_commits": [],
            "add_only": True,
        },
        "engines": [
            {"name": "hypothesis+ctypes shim", "path": "verif/", "serves_properties": sorted(CHECKS),
             "kind_free_text": "Hypothesis 6.168 (python3-vt) driving an ASan+UBSan build of the library through ctypes; ledger allocator, guard pages, canonical tree dumper"},
            {"name": "libFuzzer targets", "path": "native/fz_*.c", "serves_properties": [p for p in sorted(CHECKS) if CHECKS[p].get("fuzz")],
             "kind_free_text": "clang -fsanitize=fuzzer,address,undefined byte-level targets with semantic oracles inside"},
        ],
        "checks": checks,
        "not_applicable": na,
        "notes": "All checks rebuild the library from /repo's working tree into build/<id>.<pid>/ and remove it afterwards. VERIF_SEED selects the Hypothesis/libFuzzer seeds.",
    }
    with open(os.path.join(ROOT, "MANIFEST.json"), "w") as f:
        json.dump(m, f, indent=1)
        f.write("\n")
    try:
        import jsonschema
        jsonschema.validate(m, json.load(open("/root/.vp/MANIFEST.schema.json")))
        print("MANIFEST.json valid; %d checks, %d not_applicable" % (len(checks), len(na)))
    except ImportError:
        print("written (jsonschema not available)")


if __name__ == "__main__":
    main()
