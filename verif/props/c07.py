"""C07 - every allocation is released exactly once; borrowed memory is never freed."""
from hypothesis import strategies as st

from ..core import Prop, Violation
from ..lib import LG_BOTH, LG_DEFAULT
from .c06 import OPS_WEIGHTED, op_records, seed_trees, run_program

OPS_C07 = OPS_WEIGHTED + ["parse"] * 3 + ["print"] * 4 + ["compare"] * 2 + ["minify"] + ["dup"] * 3 + ["delete"] * 2 + \
    ["add_ref"] * 3 + ["create_containerref"] * 2 + ["create_stringref"] + ["replace_key"] * 3 + ["add_object"] * 3 + \
    ["utils"] * 4 + ["sort", "util_sorting"]


class C07(Prop):
    ID = "C07"
    RULE = ("C06 operation programs extended with parse (valid and malformed), all print variants, compare, minify, duplicate, reference "
            "nodes to strings/arrays/objects, constant keys kept in read-only guarded memory, items moved between containers and key "
            "arguments that alias the item's / the replacement's / the matched member's / the referenced item's own key; cJSON_Utils calls on copies of the documents (document-derived patches, case-flipped moves of a value into itself) and on documents holding references (members replaced, removed, copied, moved); executed under custom hooks (ledger) "
            "and under the default allocator (observed through link-time --wrap); obligatory final deletion of every root. Oracle: ledger "
            "empty at the end, no foreign/double/cross free, no sanitizer report, borrowed arena untouched (read-only pages; a free of it "
            "is a foreign free), and after every step (including deletions of reference nodes) every live tree still equals the model. "
            "non-trivial = program with a reference node, constant key, inter-container move or aliasing key, and a non-empty final delete; "
            "distinct by (program, allocator) hash")
    ASSUMPTIONS = ["LeakSanitizer is off inside the Python host (it reports the interpreter); the ledger is the leak oracle"]
    REQUIRED_CLASSES = ["reference", "const_key", "move", "alias_key", "alias_member_key", "alias_referenced_key", "utils_document_derived_patch", "utils_on_reference_holder", "utils_move_into_itself", "default_allocator", "custom_hooks", "string_grown"]

    def budget(self, tier):
        return {"workers": 14, "examples": 1200 if tier == "quick" else 15000}

    def strategy(self, tier):
        return st.fixed_dictionaries({"seeds": seed_trees(), "ops": op_records(OPS_C07, 60),
                                      "allocator": st.sampled_from([LG_BOTH, LG_BOTH, LG_DEFAULT])})

    def run_case(self, lib, case, stats):
        if lib.ledger_live() != 0:
            raise Violation("harness: ledger not empty at case start", key="harness")
        lib.ledger_install(case.get("allocator", 1))
        lib.ledger_reset_counters()
        holder = {}

        def final(w, it):
            holder["roots"] = len(w.roots)
        try:
            w, it = run_program(lib, case, stats, final=final)
            stats.inner += w.steps
            s = lib.stats()
            if lib.ledger_live() != 0:
                raise Violation("%d blocks (%d bytes) still allocated after deleting every root" % (s.live, s.live_bytes), key="leak")
            if s.foreign_free:
                raise Violation("a pointer that is not a live allocation was released (double free, or free of borrowed memory)", key="foreign-free")
            if s.cross_free:
                raise Violation("a block was released through the wrong allocator", key="cross-free")
            if case.get("allocator", 1) == LG_BOTH and (s.wrap_malloc or s.wrap_realloc or s.wrap_free or s.wrap_calloc):
                raise Violation("C library allocator used although both hooks are installed", key="hooks-bypassed")
        finally:
            if lib.ledger_live() == 0:
                lib.ledger_install(LG_BOTH)
        stats.cls("default_allocator" if case.get("allocator", 1) == LG_DEFAULT else "custom_hooks")
        for f in it.feat:
            stats.cls(f)
        if it.feat & {"reference", "const_key", "move", "alias_key", "alias_member_key"} and holder.get("roots", 0) > 0:
            stats.nontriv(case, {"allocator": case.get("allocator", 1), "ops": [d for d in it.transcript if d != "skip"][:40]})

    def shrink_candidates(self, case):
        ops = case["ops"]
        out = [dict(case, ops=ops[:i] + ops[i + 1:]) for i in range(len(ops))]
        for i in range(len(case.get("seeds", []))):
            out.append(dict(case, seeds=case["seeds"][:i] + case["seeds"][i + 1:]))
        return out[:60]


PROP = C07()
