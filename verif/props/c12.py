"""C12 - Compare decides semantic equality of JSON values."""
import copy
import math
import random

from hypothesis import strategies as st

from .. import gens, model, printing
from ..core import Prop, Violation

MUTATIONS = ["identity", "permute", "number_ulp0", "number_ulp1", "number_ulp2", "number_far", "number_sign", "number_nonfinite", "string_change",
             "bool_flip", "type_change", "key_rename", "key_case", "member_add", "member_drop", "member_add_casevar", "key_nonletter_flip", "element_add", "element_drop",
             "element_swap", "raw_change", "null_to_nonfinite", "independent"]


def nodes_with_paths(jv, path=()):
    yield path, jv
    if jv[0] == "A":
        for i, ch in enumerate(jv[1]):
            for x in nodes_with_paths(ch, path + (i,)):
                yield x
    elif jv[0] == "O":
        for i, (k, ch) in enumerate(jv[1]):
            for x in nodes_with_paths(ch, path + (i,)):
                yield x


def get_at(jv, path):
    for i in path:
        jv = jv[1][i] if jv[0] == "A" else jv[1][i][1]
    return jv


def set_at(jv, path, new):
    if not path:
        return new
    jv = copy.deepcopy(jv)
    cur = jv
    for i in path[:-1]:
        cur = cur[1][i] if cur[0] == "A" else cur[1][i][1]
    if cur[0] == "A":
        cur[1][path[-1]] = new
    else:
        cur[1][path[-1]][1] = new
    return jv


def nudge(d, k):
    for _ in range(abs(k)):
        d = math.nextafter(d, math.inf if k > 0 else -math.inf)
    return d


def permute(jv, rnd):
    if jv[0] == "A":
        return ["A", [permute(x, rnd) for x in jv[1]]]
    if jv[0] == "O":
        m = [[k, permute(v, rnd)] for k, v in jv[1]]
        rnd.shuffle(m)
        return ["O", m]
    return jv


def fresh_key(members, rnd):
    existing = {model.fold(k) for k, _ in members}
    for _ in range(50):
        k = bytes(rnd.choice(b"abcxyzKQ_09") for _ in range(rnd.randint(1, 4)))
        if model.fold(k) not in existing:
            return k
    return b"zz" + bytes(str(len(members)), "ascii")


def mutate(a, kind, rnd):
    """returns (b, applied) - applied False when the tree offers no site for this mutation"""
    sites = list(nodes_with_paths(a))

    def pick(pred):
        c = [(p, n) for p, n in sites if pred(n)]
        return rnd.choice(c) if c else (None, None)

    if kind == "identity":
        return copy.deepcopy(a), True
    if kind == "permute":
        return permute(a, rnd), any(n[0] == "O" and len(n[1]) >= 2 for _, n in sites)
    if kind.startswith("number_"):
        p, n = pick(lambda n: n[0] == "N" and n[1] == n[1] and not math.isinf(n[1]))
        if p is None:
            return a, False
        d = n[1]
        if kind == "number_ulp0":
            y = d
        elif kind == "number_ulp1":
            if abs(d) < 2.3e-308:
                return a, False
            y = nudge(d, rnd.choice([-1, 1]))
        elif kind == "number_ulp2":
            # two or three ulps away: for powers of two this is exactly on the edge of the relative tolerance - no verdict on equality
            # there (inclusive or exclusive is a matter of reading), but Compare must still give the same answer in both orders
            if abs(d) < 2.3e-308:
                return a, False
            y = nudge(d, rnd.choice([-2, 2, -3, 3]))
            pp, pn = pick(lambda n: n[0] == "N" and n[1] == n[1] and not math.isinf(n[1]) and abs(n[1]) >= 1e-300 and math.frexp(abs(n[1]))[0] == 0.5)
            if pp is not None and rnd.random() < 0.7:
                # a power of two and the number two (smaller) ulps below it: |a - b| is exactly DBL_EPSILON times the larger one
                p, d = pp, pn[1]
                y = nudge(d, -2 if d > 0 else 2) if rnd.random() < 0.8 else nudge(d, rnd.choice([-1, -3, -4, 2]) * (1 if d > 0 else -1))
        elif kind == "number_far":
            y = nudge(d, rnd.choice([-1, 1]) * rnd.choice([4, 5, 8, 64])) if rnd.random() < 0.6 else d + rnd.choice([1.0, -1.0, 0.5, 1e-3, 1e10])
            if y == d:
                y = d * 2 + 1
        elif kind == "number_sign":
            if d == 0:
                return a, False
            y = -d
        else:
            y = rnd.choice([math.inf, -math.inf, math.nan])
        return set_at(a, p, ["N", y]), True
    if kind == "string_change":
        p, n = pick(lambda n: n[0] == "S")
        if p is None:
            return a, False
        s = n[1]
        choices = [s + b"x", s[:-1] if s else b"y", s.swapcase() if s.swapcase() != s else s + b"_", b"\x01" + s]
        return set_at(a, p, ["S", rnd.choice(choices)]), True
    if kind == "raw_change":
        p, n = pick(lambda n: n[0] == "R")
        if p is None:
            return a, False
        r = n[1]
        choices = [r + b" ", r.swapcase() if r.swapcase() != r else r + b"x", r[:-1] if len(r) > 1 else r + b"0"]
        return set_at(a, p, ["R", rnd.choice(choices)]), True
    if kind == "null_to_nonfinite":
        # a number that PRINTS as null (infinity, NaN) is still a number: different type, different value
        p, n = pick(lambda n: n[0] == "n")
        if p is None:
            return a, False
        return set_at(a, p, ["N", rnd.choice([math.inf, -math.inf, math.nan])]), True
    if kind == "bool_flip":
        p, n = pick(lambda n: n[0] in "tf")
        if p is None:
            return a, False
        return set_at(a, p, ["f"] if n[0] == "t" else ["t"]), True
    if kind == "type_change":
        p, n = rnd.choice(sites)
        repl = rnd.choice([["n"], ["t"], ["f"], ["N", 0.0], ["S", b""], ["A", []], ["O", []], ["R", b"x"]])
        if repl[0] == n[0] and (n[0] in "ntf" or (n[0] in "AO" and not n[1])):
            repl = ["S", b"different"]
        if n[0] == "S" and repl[0] == "S":
            repl = ["R", n[1]]       # same bytes, different type
        if n[0] == "N" and repl[0] == "N":
            repl = ["S", b"0"]
        if n[0] == "R" and repl[0] == "R":
            repl = ["S", n[1]]
        if n[0] in "AO" and repl[0] == n[0]:
            repl = ["A", []] if n[0] == "O" else ["O", []]
        return set_at(a, p, repl), True
    if kind == "member_add_casevar":
        # b = a plus a member whose key differs from an existing key only in letter case (legal for case-sensitive comparison)
        p, n = pick(lambda n: n[0] == "O" and any(k.swapcase() != k for k, _ in n[1]))
        if p is None:
            return a, False
        members = copy.deepcopy(n[1])
        i = rnd.choice([i for i, (k, _) in enumerate(members) if k.swapcase() != k])
        k = members[i][0]
        pos = [j for j, ch in enumerate(k) if (65 <= ch <= 90 or 97 <= ch <= 122)]
        j = rnd.choice(pos)
        newk = k[:j] + bytes([k[j] ^ 0x20]) + k[j + 1:]
        if any(newk == kk for kk, _ in members):
            return a, False
        val = copy.deepcopy(members[i][1]) if rnd.random() < 0.5 else ["N", 12345.0]
        members.insert(rnd.randint(0, len(members)), [newk, val])
        return set_at(a, p, ["O", members]), True
    if kind == "key_nonletter_flip":
        # flip bit 0x20 of a non-letter key byte ('[' <-> '{', '@' <-> '`', ...): different keys in BOTH modes
        p, n = pick(lambda n: n[0] == "O" and any(any(c in b"[{@`]}^~_\\|" for c in k) for k, _ in n[1]))
        if p is None:
            return a, False
        members = copy.deepcopy(n[1])
        i = rnd.choice([i for i, (k, _) in enumerate(members) if any(c in b"[{@`]}^~_\\|" for c in k)])
        k = members[i][0]
        j = rnd.choice([j for j, c in enumerate(k) if c in b"[{@`]}^~_\\|"])
        newk = k[:j] + bytes([k[j] ^ 0x20]) + k[j + 1:]
        if any(model.fold(newk) == model.fold(kk) for kk, _ in members):
            return a, False
        members[i][0] = newk
        return set_at(a, p, ["O", members]), True
    if kind in ("key_rename", "key_case", "member_add", "member_drop"):
        p, n = pick(lambda n: n[0] == "O" and (len(n[1]) >= 1 or kind == "member_add"))
        if p is None:
            return a, False
        members = copy.deepcopy(n[1])
        if kind == "member_add":
            members.insert(rnd.randint(0, len(members)), [fresh_key(members, rnd), rnd.choice([["n"], ["N", 1.0], ["A", []]])])
        elif kind == "member_drop":
            members.pop(rnd.randrange(len(members)))
        elif kind == "key_rename":
            i = rnd.randrange(len(members))
            members[i][0] = fresh_key(members, rnd)
        else:
            cands = [i for i, (k, _) in enumerate(members) if k.swapcase() != k]
            if not cands:
                return a, False
            i = rnd.choice(cands)
            k = members[i][0]
            # flip the case of one ASCII letter
            pos = [j for j, ch in enumerate(k) if (65 <= ch <= 90 or 97 <= ch <= 122)]
            j = rnd.choice(pos)
            members[i][0] = k[:j] + bytes([k[j] ^ 0x20]) + k[j + 1:]
        return set_at(a, p, ["O", members]), True
    if kind in ("element_add", "element_drop", "element_swap"):
        p, n = pick(lambda n: n[0] == "A" and (len(n[1]) >= (2 if kind == "element_swap" else 1) or kind == "element_add"))
        if p is None:
            return a, False
        items = copy.deepcopy(n[1])
        if kind == "element_add":
            items.insert(rnd.randint(0, len(items)), rnd.choice([["n"], ["N", 7.0], ["S", b"new"]]))
        elif kind == "element_drop":
            items.pop(rnd.randrange(len(items)))
        else:
            i = rnd.randrange(len(items) - 1)
            j = rnd.randrange(i + 1, len(items))
            items[i], items[j] = items[j], items[i]
        return set_at(a, p, ["A", items]), True
    return a, False


class Arena:
    """borrowed key / string memory for the ownership-flag variants (read-only guarded pages)"""

    def __init__(self, lib):
        self.lib = lib
        self.ptrs = []

    def put(self, b):
        p = self.lib.guard_ro(b + b"\x00", len(b) + 1)
        self.ptrs.append(p)
        return p

    def close(self):
        for p in self.ptrs:
            self.lib.guard_release(p)
        self.ptrs = []


def build_variant(lib, jv, arena, const_keys, string_refs):
    t = jv[0]
    if t == "S" and string_refs:
        return lib.cJSON_CreateStringReference(arena.put(jv[1]))
    if t == "A":
        a = lib.cJSON_CreateArray()
        for ch in jv[1]:
            lib.cJSON_AddItemToArray(a, build_variant(lib, ch, arena, const_keys, string_refs))
        return a
    if t == "O":
        o = lib.cJSON_CreateObject()
        for k, ch in jv[1]:
            c = build_variant(lib, ch, arena, const_keys, string_refs)
            if const_keys:
                lib.cJSON_AddItemToObjectCS(o, arena.put(k), c)
            else:
                lib.cJSON_AddItemToObject(o, k, c)
        return o
    return printing.build_tree(lib, jv)


STALE_NAMES = [b"old name", b"0", b"", b"a/b", b"K", b"k"]


def build_stale(lib, jv, rnd, keep):
    """the same value, but array elements (and the root) still carry the name they had as members of some other object
    (the library never clears it), and scalars are reference nodes made by cJSON_AddItemReferenceTo*; names are drawn
    independently for the two trees of a pair, so corresponding elements usually carry DIFFERENT left-over names"""
    def named(p):
        if rnd.random() < 0.6:
            tmp = lib.cJSON_CreateObject()
            lib.cJSON_AddItemToObject(tmp, rnd.choice(STALE_NAMES), p)
            lib.cJSON_DetachItemViaPointer(tmp, p)
            lib.cJSON_Delete(tmp)
        return p
    t = jv[0]
    if t == "A":
        a = lib.cJSON_CreateArray()
        for ch in jv[1]:
            c = named(build_stale(lib, ch, rnd, keep))
            if ch[0] not in "AO" and rnd.random() < 0.4:
                keep.append(c)
                lib.cJSON_AddItemReferenceToArray(a, c)
            else:
                lib.cJSON_AddItemToArray(a, c)
        return a
    if t == "O":
        o = lib.cJSON_CreateObject()
        for k, ch in jv[1]:
            c = build_stale(lib, ch, rnd, keep)
            if ch[0] not in "AO" and b"\x00" not in k and rnd.random() < 0.3:
                keep.append(c)
                lib.cJSON_AddItemReferenceToObject(o, k, c)
            else:
                lib.cJSON_AddItemToObject(o, k, c)
        return o
    return printing.build_tree(lib, jv)


def _containers(jv):
    return [n for n in model.walk_jv(jv) if n[0] in "AO" and n[1]]


class C12(Prop):
    ID = "C12"
    RULE = ("pairs (a, b): a = generated tree with distinct keys per object (distinct after ASCII folding), b derived from a by one of 19 "
            "relations (identity, recursive member permutation, number moved by 0 / 1 ulp / >= 4 ulp / sign / to inf or NaN, string/raw change, "
            "bool flip, type change, key rename, key case flip, member/element added/dropped, two elements swapped) or independent; b is "
            "built with owned keys, constant keys, string references, or through the parser; NULL and invalid-type arguments. Oracle: "
            "Compare(a,b,cs) == Compare(b,a,cs) == reference equality on the models for both case modes; reflexive; dumps unchanged. "
            "non-trivial = b is a permutation or single-point mutation of a tree with an object of >= 2 members; distinct by pair hash")
    ASSUMPTIONS = ["number perturbations strictly between 1 and 4 ulp are not generated (razor's edge of the relative tolerance)",
                   "pairs of two distinct non-finite numbers are not generated"]
    REQUIRED_CLASSES = ["mut:" + m for m in MUTATIONS] + ["expect_equal", "expect_different", "ci_differs_from_cs", "const_keys", "string_refs", "parsed", "deep_tree", "reference_view_checked", "invalid_null_string_checked", "stale_names_and_scalar_references"]

    def budget(self, tier):
        return {"workers": 14, "examples": 1500 if tier == "quick" else 30000}

    def strategy(self, tier):
        numbers = st.one_of(gens.finite_doubles(), gens.finite_doubles(), st.sampled_from([1.0, 0.1, 1e300, 2.5, -3.0, 123456.789]), gens.top_doubles(),
                            st.sampled_from([5e-324, 1e-310, 3e-308, 2.2250738585072014e-308, 1e-300, -1.7976931348623157e308]))
        strings = st.one_of(gens.byte_strings(8), st.sampled_from([b"abc", b"ABC", b"", b"x"]))
        leaves = st.one_of(gens.scalars_built(strings=strings, numbers=numbers), st.sampled_from([b"{}", b"[1]", b"raw", b"1E3", b"true", b"Yes", b'{"Key":1}']).map(lambda r: ["R", r]))
        keys = st.one_of(gens.ascii_keys(4), gens.byte_strings(4), st.sampled_from([b"a", b"A", b"key", b"Key", b"k1", b"k2"]),
                         st.sampled_from([b"[", b"{", b"@", b"`", b"a[0]", b"x_y", b"^", b"~", b"k|", b"k\\"]))
        tree = st.one_of(gens.shaped_documents(leaves, keys, max_leaves=12, min_leaves=3, unique_keys=True, fold_unique=True),
                         gens.shaped_documents(leaves, keys, max_leaves=12, min_leaves=4, unique_keys=True, fold_unique=True),
                         gens.shaped_documents(leaves, keys, max_leaves=5, unique_keys=True, fold_unique=True))
        # deep chains stay compact in the case (expanded in run_case); arrays only: Compare is exponential in OBJECT nesting depth
        deep = st.tuples(st.sampled_from([999, 1000, 1001, 1100]), st.sampled_from([["N", 1.0], ["S", b"x"], ["A", []], ["t"]])).map(
            lambda t: ["D", "[", t[0], t[1]])
        tree = st.tuples(gens.chance(60), tree, deep).map(lambda t: t[2] if t[0] else t[1])
        return st.fixed_dictionaries({"a": tree, "other": tree, "mutation": st.sampled_from(MUTATIONS),
                                      "rseed": st.integers(0, 2 ** 31), "variant": st.integers(0, 7)})

    def reference_views(self, lib, stats, a, rnd):
        """ownership flags must not matter: a reference container that shares the tail of another container's member list
        denotes the same value as a plain container with those members"""
        conts = _containers(a)
        if not conts or model.depth_of(a) > 100:
            return
        c = rnd.choice(conts)
        members = c[1]
        lead = rnd.choice([["n"], ["S", b"lead"], ["A", []], ["N", 5.0], ["O", []]])
        if c[0] == "A":
            host_jv = ["A", [lead] + members]
        else:
            host_jv = ["O", [[b"\x01lead", lead]] + members]
        host = printing.build_tree(lib, host_jv)
        plain = printing.build_tree(lib, c)
        first = lib.cJSON_GetArrayItem(host, 1)
        ref = (lib.cJSON_CreateArrayReference if c[0] == "A" else lib.cJSON_CreateObjectReference)(first)
        try:
            for cs in (1, 0):
                if c[0] == "O" and not cs and len(set(model.fold(k) for k, _ in members)) != len(members):
                    continue
                if not lib.cJSON_Compare(ref, plain, cs) or not lib.cJSON_Compare(plain, ref, cs):
                    raise Violation("a reference %s sharing the tail of another container's list compares unequal to a plain container with the "
                                    "same members (case_sensitive=%d): %s" % ("array" if c[0] == "A" else "object", cs, model.emit_text(c)[:200]),
                                    key="reference-view")
            stats.cls("reference_view_checked")
        finally:
            lib.cJSON_Delete(ref)
            lib.cJSON_Delete(host)
            lib.cJSON_Delete(plain)

    def run_case(self, lib, case, stats):
        rnd = random.Random(case["rseed"])
        a = case["a"]
        kind = case["mutation"]
        if a[0] == "D":
            # deep chain: equal separate tree, or the same chain with a different leaf / one level more
            stats.cls("deep_tree")
            k = case["rseed"] % 3
            bd = a if k == 0 else (["D", "[", a[2], ["N", 2.0] if a[3] != ["N", 2.0] else ["t"]] if k == 1 else ["D", "[", a[2] + 1, a[3]])
            a, b, applied, kind = model.expand(a), model.expand(bd), True, ("identity" if k == 0 else "deep_change")
            if case["other"][0] == "D":
                case = dict(case, other=["n"])
        elif case["other"][0] == "D":
            case = dict(case, other=model.expand(case["other"]))
        if a is not case["a"] and kind in ("identity", "deep_change"):
            pass
        elif kind == "independent":
            b, applied = case["other"], True
        else:
            b, applied = mutate(a, kind, rnd)
            if not applied:
                # take the next relation (in list order) that this tree offers a site for
                start = MUTATIONS.index(kind)
                for off in range(1, len(MUTATIONS)):
                    k2 = MUTATIONS[(start + off) % len(MUTATIONS)]
                    if k2 in ("independent", "identity"):
                        continue
                    b, applied = mutate(a, k2, rnd)
                    if applied:
                        kind = k2
                        break
        if not applied:
            stats.cls("mutation_not_applicable")
            b = copy.deepcopy(a)
            kind = "identity"
        stats.cls("mut:" + kind)
        variant = case["variant"]
        arena = Arena(lib)
        keep = []
        pa = printing.build_tree(lib, a) if variant not in (6, 7) else build_stale(lib, a, random.Random(case["rseed"] + 1), keep)
        pb = None
        if variant in (6, 7) and model.depth_of(b) < 200:
            pb = build_stale(lib, b, random.Random(case["rseed"] + 2), keep)
            stats.cls("stale_names_and_scalar_references")
        if variant == 3:
            try:
                text = model.emit_text(b, rnd)
                ok = not any(n[0] == "R" or (n[0] == "N" and (n[1] != n[1] or math.isinf(n[1]))) for n in model.walk_jv(b))
            except UnicodeDecodeError:
                ok = False
            if ok:
                po = lib.parse(2, text, 0, 0, 0)
                if po.tree:
                    pb = po.tree
                    stats.cls("parsed")
                    # the model of b is what the text denotes (repr() round-trips doubles exactly)
        if pb is None:
            ck, sr = variant in (1, 4), variant in (2, 4)
            if ck:
                stats.cls("const_keys")
            if sr:
                stats.cls("string_refs")
            pb = build_variant(lib, b, arena, ck, sr)
        try:
            da = lib.dump(pa)[0]
            db = lib.dump(pb)[0]
            raw_a, raw_b = lib.shim_tree_rawhash(pa), lib.shim_tree_rawhash(pb)
            def fold_unique(jv):
                return all(len(set(model.fold(k) for k, _ in n[1])) == len(n[1]) for n in model.walk_jv(jv) if n[0] == "O")
            modes = (1, 0) if (fold_unique(a) and fold_unique(b)) else (1,)
            if len(modes) == 1:
                stats.cls("case_variant_keys_cs_only")
            for cs in modes:
                want = model.eq_set(a, b, bool(cs))
                # cJSON_bool is an int: every non-zero value asks for the case-sensitive comparison
                csv = cs and (1, 2, -1, 256)[case["rseed"] & 3]
                r1 = lib.cJSON_Compare(pa, pb, csv)
                r2 = lib.cJSON_Compare(pb, pa, csv)
                stats.inner += 2
                if bool(r1) != bool(r2):
                    raise Violation("Compare is not symmetric (case_sensitive=%d): %d vs %d; mutation %s" % (cs, r1, r2, kind), key="asymmetric")
                if kind == "number_ulp2":
                    stats.cls("tolerance_edge_(symmetry_only)")
                    continue
                if bool(r1) != want:
                    raise Violation("Compare(a, b, case_sensitive=%d) = %d but the values are %s (relation: %s); a=%s b=%s" % (
                        cs, r1, "equal" if want else "different", kind, lib.dump(pa)[0][:200], lib.dump(pb)[0][:200]),
                        key="wrong:%s:%s" % (kind, "eq" if want else "ne"))
                stats.cls("expect_equal" if want else "expect_different")
            if len(modes) == 2 and model.eq_set(a, b, False) != model.eq_set(a, b, True):
                stats.cls("ci_differs_from_cs")
            # reflexive on valid (finite) trees, false on NULL
            finite = not any(n[0] == "N" and (n[1] != n[1]) for n in model.walk_jv(a))
            if not lib.cJSON_Compare(pa, pa, 1) or not lib.cJSON_Compare(pa, pa, 0):
                raise Violation("Compare(a, a) is false", key="reflexive")
            if finite:
                dup = lib.cJSON_Duplicate(pa, 1)
                r = lib.cJSON_Compare(pa, dup, 1) and lib.cJSON_Compare(dup, pa, 0)
                lib.cJSON_Delete(dup)
                if not r:
                    raise Violation("Compare(a, duplicate(a)) is false", key="reflexive")
            if lib.cJSON_Compare(pa, None, 1) or lib.cJSON_Compare(None, pb, 0) or lib.cJSON_Compare(None, None, 1):
                raise Violation("Compare with a NULL argument is true", key="null-arg")
            # invalid type on a copy of a
            if case["rseed"] % 4 == 0:
                inv = lib.cJSON_Duplicate(pa, 1)
                real = lib.shim_type(inv)
                for bad in (0, 3, 0x18, 0x60):
                    lib.shim_poke_type(inv, (real & ~0xFF) | bad)
                    if lib.cJSON_Compare(inv, inv, 1) or lib.cJSON_Compare(inv, pa, 1) or lib.cJSON_Compare(pa, inv, 0):
                        lib.shim_poke_type(inv, real)
                        lib.cJSON_Delete(inv)
                        raise Violation("Compare accepts an item of invalid type %d" % bad, key="invalid-type")
                lib.shim_poke_type(inv, real)
                lib.cJSON_Delete(inv)
                stats.cls("invalid_type_checked")
            if lib.dump(pa)[0] != da or lib.dump(pb)[0] != db:
                raise Violation("Compare modified one of its arguments", key="modified")
            if lib.shim_tree_rawhash(pa) != raw_a or lib.shim_tree_rawhash(pb) != raw_b:
                raise Violation("Compare changed bytes of one of its arguments (a bit of a node's type word, a link, a string): it never modifies them", key="modified-raw")
            self.reference_views(lib, stats, a, rnd)
            # invalid items: strings without a value (never equal to anything, not even to another such item)
            if case["rseed"] % 5 == 0:
                n1 = lib.cJSON_CreateStringReference(None)
                n2 = lib.cJSON_CreateStringReference(None)
                w1 = lib.cJSON_CreateArray()
                w2 = lib.cJSON_CreateArray()
                lib.cJSON_AddItemToArray(w1, n1)
                lib.cJSON_AddItemToArray(w2, n2)
                try:
                    if lib.cJSON_Compare(n1, n2, 1) or lib.cJSON_Compare(n2, n1, 0) or lib.cJSON_Compare(w1, w2, 1):
                        raise Violation("two distinct string items without a value (invalid) compare equal", key="invalid-null-string")
                    stats.cls("invalid_null_string_checked")
                finally:
                    lib.cJSON_Delete(w1)
                    lib.cJSON_Delete(w2)
        finally:
            lib.cJSON_Delete(pa)
            lib.cJSON_Delete(pb)
            for k_ in keep:
                lib.cJSON_Delete(k_)
            arena.close()
        if lib.ledger_live() != 0:
            raise Violation("Compare left allocations behind", key="leak")
        if kind not in ("independent", "identity", "deep_change") and any(n[0] == "O" and len(n[1]) >= 2 for n in model.walk_jv(a)):
            stats.nontriv([a, b], {"a": a, "b": b, "relation": kind})


PROP = C12()
