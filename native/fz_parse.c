/* libFuzzer target for the parser: C01 (memory safety, boundedness, clean results),
 * C03 (differential against the dialect recogniser), C10 (parse end / error position /
 * termination relations) and C04 (print/parse fixed point on parser-made trees).
 * The active oracle set is chosen by $VERIF_FZ_PROP; memory-safety detectors are always on.
 *
 * byte 0: bits 0-1 entry point, bit 2 require_null_terminated, bit 3 pass return_parse_end,
 *         bit 4 placement (0 = read-only page flush against PROT_NONE, 1 = exact-size heap block),
 *         bit 5 (length variants) append a terminating zero and count it in the length
 * rest:   payload.  String variants: payload cut at its first zero, terminator appended as the
 *         last accessible byte. */
#include <math.h>
#include <limits.h>
#include "fzcommon.h"

static int mode_c01 = 1, mode_c03 = 0, mode_c10 = 0, mode_c04 = 0;
static int inited = 0;

static void init(void)
{
    const char *m = getenv("VERIF_FZ_PROP");
    inited = 1;
    if (m != NULL)
    {
        mode_c03 = (strcmp(m, "C03") == 0);
        mode_c10 = (strcmp(m, "C10") == 0);
        mode_c04 = (strcmp(m, "C04") == 0);
    }
    ledger_install(LG_BOTH);
}

static int all_finite(const cJSON *n)
{
    const cJSON *c;
    if ((n->type & 0xFF) == cJSON_Number && !(n->valuedouble - n->valuedouble == 0.0))
    {
        return 0;
    }
    for (c = n->child; c != NULL; c = c->next)
    {
        if (!all_finite(c))
        {
            return 0;
        }
    }
    return 1;
}

static int equal_tol(const cJSON *a, const cJSON *b)
{
    const cJSON *x, *y;
    if ((a->type & 0xFF) != (b->type & 0xFF))
    {
        return 0;
    }
    if ((a->string == NULL) != (b->string == NULL) || (a->string != NULL && strcmp(a->string, b->string) != 0))
    {
        return 0;
    }
    switch (a->type & 0xFF)
    {
        case cJSON_Number:
        {
            double p = a->valuedouble, q = b->valuedouble;
            double ap = fabs(p), aq = fabs(q);
            if (!(q - q == 0.0))
            {
                return 0;
            }
            if (fabs(p - q) > ldexp(1.0, -52) * (ap > aq ? ap : aq))
            {
                return 0;
            }
            if (ap < 1e15 && p == floor(p) && p != q)
            {
                return 0;
            }
            return 1;
        }
        case cJSON_String:
        case cJSON_Raw:
            return a->valuestring != NULL && b->valuestring != NULL && strcmp(a->valuestring, b->valuestring) == 0;
        default:
            break;
    }
    for (x = a->child, y = b->child; x != NULL && y != NULL; x = x->next, y = y->next)
    {
        if (!equal_tol(x, y))
        {
            return 0;
        }
    }
    return x == NULL && y == NULL;
}

static void check_fixed_point(cJSON *tree, int fmt)
{
    char *t1 = fmt ? cJSON_Print(tree) : cJSON_PrintUnformatted(tree);
    cJSON *back;
    char *t2;
    if (t1 == NULL)
    {
        fz_fail("C04: print of a parsed tree failed");
    }
    back = cJSON_Parse(t1);
    if (back == NULL)
    {
        fz_fail("C04: printed text of a parsed tree does not parse");
    }
    if (!equal_tol(tree, back))
    {
        fz_fail("C04: print->parse changed the value");
    }
    t2 = fmt ? cJSON_Print(back) : cJSON_PrintUnformatted(back);
    if (t2 == NULL || strcmp(t1, t2) != 0)
    {
        fz_fail("C04: print(parse(T)) != T");
    }
    cJSON_free(t1);
    cJSON_free(t2);
    cJSON_Delete(back);
}

int LLVMFuzzerTestOneInput(const uint8_t *data, size_t size)
{
    uint8_t sel;
    int entry, require_nt, want_end, placement, add_term;
    unsigned char *acc;     /* accessible bytes */
    size_t n;               /* accessible length */
    size_t text_len;        /* bytes the dialect is judged on */
    const unsigned char *buf;
    unsigned char *heap = NULL;
    const char *end = (const char *)(uintptr_t)1;
    const char *err;
    cJSON *tree;
    ref_result_t rc;
    size_t i;

    if (!inited)
    {
        init();
    }
    fz_begin();
    if (size < 1)
    {
        return 0;
    }
    sel = data[0];
    entry = sel & 3;
    require_nt = (sel >> 2) & 1;
    want_end = (sel >> 3) & 1;
    placement = (sel >> 4) & 1;
    add_term = (sel >> 5) & 1;
    data++;
    size--;

    acc = (unsigned char *)probe_malloc(size + 2);
    memcpy(acc, data, size);
    if (entry < 2)
    {
        for (i = 0; i < size; i++)
        {
            if (acc[i] == 0)
            {
                break;
            }
        }
        acc[i] = 0;
        n = i + 1;
        text_len = i;
    }
    else
    {
        n = size;
        text_len = size;
        if (add_term)
        {
            acc[n++] = 0;
        }
    }

    if (placement == 0)
    {
        buf = guard_ro(acc, n);
    }
    else
    {
        heap = (unsigned char *)probe_malloc(n ? n : 1);
        if (n)
        {
            memcpy(heap, acc, n);
        }
        buf = heap;
    }

    ledger_reset_counters();
    /* dead stack contents: chosen by the two top bits of the selector byte (none, '7', '1', 'e') */
    probe_set_stack_fill("\0" "71e"[(sel >> 6) & 3]);
    probe_stack_fill();
    switch (entry)
    {
        case 0:
            tree = cJSON_Parse((const char *)buf);
            want_end = 0;
            require_nt = 0;
            break;
        case 1:
            tree = cJSON_ParseWithOpts((const char *)buf, want_end ? &end : NULL, require_nt);
            break;
        case 2:
            tree = cJSON_ParseWithLength((const char *)buf, n);
            want_end = 0;
            require_nt = 0;
            break;
        default:
            tree = cJSON_ParseWithLengthOpts((const char *)buf, n, want_end ? &end : NULL, require_nt);
            break;
    }
    err = cJSON_GetErrorPtr();

    /* ---- C01: never writes to the input, clean result ---- */
    if (n && memcmp(buf, acc, n) != 0)
    {
        fz_fail("C01: the input buffer was modified");
    }
    fz_class(tree ? "accepted" : "rejected");

    ref_classify(acc, (entry < 2) ? text_len : n, CJSON_NESTING_LIMIT, &rc);
    fz_class(rc.cls == RC_STRICT ? "ref_strict" : rc.cls == RC_LENIENT ? "ref_lenient" : rc.cls == RC_INVALID ? "ref_invalid" : "ref_undecided");

    /* non-trivial: the parser advanced past the first token */
    if ((tree != NULL && tree->child != NULL) || (tree == NULL && err != NULL && (err - (const char *)buf) >= 2) ||
        (rc.cls == RC_INVALID && rc.bad_offset >= 2))
    {
        fz_nontrivial(data - 1, size + 1);
    }

    /* ---- C10 relations ---- */
    if (mode_c10)
    {
        if (tree != NULL)
        {
            if (err != NULL)
            {
                fz_fail("C10: global error pointer not NULL after a successful parse");
            }
            if (want_end)
            {
                if (end == (const char *)(uintptr_t)1)
                {
                    fz_fail("C10: return_parse_end not stored on success");
                }
                if (end < (const char *)buf || end > (const char *)buf + n)
                {
                    fz_fail("C10: parse end outside the buffer");
                }
            }
        }
        else
        {
            if (err == NULL)
            {
                fz_fail("C10: global error pointer NULL after a failed parse");
            }
            if (n > 0 && (err < (const char *)buf || err > (const char *)buf + n - 1))
            {
                fz_fail("C10: error position outside the buffer");
            }
            if (n == 0 && err != (const char *)buf)
            {
                fz_fail("C10: error position for an empty buffer is not the buffer start");
            }
            if (want_end && end != err)
            {
                fz_fail("C10: return_parse_end differs from the global error pointer after a failure");
            }
        }
    }
    if (mode_c10 && tree != NULL && want_end)
    {
        /* the bytes before the reported end parse by themselves to an equal tree */
        size_t plen = (size_t)(end - (const char *)buf);
        const unsigned char *pb = guard_ro(acc, plen);
        cJSON *again = cJSON_ParseWithLength((const char *)pb, plen);
        dump_result_t d1, d2;
        if (again == NULL)
        {
            fz_fail("C10: the bytes before the reported parse end do not parse");
        }
        tree_dump(tree, 1, 1, &d1);
        tree_dump(again, 1, 1, &d2);
        if (d1.length != d2.length || memcmp(d1.text, d2.text, d1.length) != 0)
        {
            fz_fail("C10: the bytes before the reported parse end parse to a different tree");
        }
        tree_dump_release(&d1);
        tree_dump_release(&d2);
        cJSON_Delete(again);
        guard_release(pb);
        fz_class("prefix_reparsed");
    }
    if (mode_c10 && rc.cls == RC_STRICT)
    {
        size_t v = rc.value_end;
        size_t lim = (entry < 2) ? n : n; /* accessible bytes incl. terminator */
        if (!require_nt)
        {
            if (tree == NULL)
            {
                fz_fail("C10: trailing bytes made a parse fail although termination was not required");
            }
        }
        else
        {
            /* tail = acc[v..lim) */
            size_t k = v;
            int verdict = -1; /* 1 must succeed, 0 must fail, -1 open */
            while (k < lim && acc[k] != 0 && acc[k] <= 0x20)
            {
                k++;
            }
            if (k == lim)
            {
                verdict = 0; /* no zero byte after the value */
            }
            else if (acc[k] > 0x20)
            {
                verdict = 0; /* garbage before any zero */
            }
            else
            {
                /* acc[k] == 0: must succeed if everything up to the end of the buffer is zero */
                size_t z = k;
                while (z < lim && acc[z] == 0)
                {
                    z++;
                }
                if (z == lim)
                {
                    verdict = 1;
                }
            }
            if (verdict == 1 && tree == NULL)
            {
                fz_fail("C10: value followed only by whitespace and a terminator was rejected");
            }
            if (verdict == 0 && tree != NULL)
            {
                fz_fail("C10: termination required but no terminator follows the value, yet the parse succeeded");
            }
            fz_class(verdict == 1 ? "nt_must_succeed" : verdict == 0 ? "nt_must_fail" : "nt_open");
        }
    }

    /* ---- C10: relation between the two flag values, for ANY accepted text (strict or lenient) ---- */
    if (mode_c10 && tree != NULL && !require_nt && (entry == 1 || entry == 3) && want_end && end != NULL)
    {
        size_t e = (size_t)(end - (const char *)buf);
        size_t lim = n;
        if (e <= lim)
        {
            size_t k = e;
            int verdict = -1;
            cJSON *t2;
            while (k < lim && acc[k] != 0 && acc[k] <= 0x20)
            {
                k++;
            }
            if (k == lim || acc[k] > 0x20)
            {
                verdict = 0;
            }
            else
            {
                size_t z = k;
                while (z < lim && acc[z] == 0)
                {
                    z++;
                }
                if (z == lim)
                {
                    verdict = 1;
                }
            }
            t2 = (entry == 1) ? cJSON_ParseWithOpts((const char *)buf, NULL, 1) : cJSON_ParseWithLengthOpts((const char *)buf, n, NULL, 1);
            if (verdict == 1 && t2 == NULL)
            {
                fz_fail("C10: a text accepted without the flag and followed only by blanks and a terminator is rejected when termination is required");
            }
            if (verdict == 0 && t2 != NULL)
            {
                fz_fail("C10: termination required and the value is not followed by blanks and a zero byte, yet the parse succeeded");
            }
            fz_class(verdict == 1 ? "flag_relation_must_succeed" : verdict == 0 ? "flag_relation_must_fail" : "flag_relation_open");
            cJSON_Delete(t2);
        }
    }

    /* ---- C03 differential ---- */
    if (mode_c03)
    {
        if (rc.cls == RC_STRICT && require_nt && tree != NULL)
        {
            /* bytes after the first complete value may be accepted only when termination is not required */
            size_t k = rc.value_end;
            size_t lim = n;
            while (k < lim && acc[k] != 0 && acc[k] <= 0x20)
            {
                k++;
            }
            if (k == lim || acc[k] > 0x20)
            {
                fz_fail("C03: termination required, the value is followed by other bytes, yet the text was accepted");
            }
        }
        if (rc.cls == RC_INVALID && tree != NULL)
        {
            fz_fail("C03: text outside the dialect was accepted");
        }
        if (rc.cls == RC_STRICT && !require_nt && tree == NULL)
        {
            fz_fail("C03: strict RFC 8259 text was rejected");
        }
    }

    /* ---- C01: result usable, nothing left behind ---- */
    if (tree != NULL)
    {
        size_t nodes = 0, depth = 0;
        unsigned fl = tree_walk(tree, 1, 1, &nodes, &depth);
        char *p1, *p2, *p3;
        if (fl != 0)
        {
            fz_fail("C01: parsed tree has structural defects");
        }
        p1 = cJSON_PrintUnformatted(tree);
        p2 = cJSON_Print(tree);
        p3 = cJSON_PrintBuffered(tree, 1, 1);
        if (p1 == NULL || p2 == NULL || p3 == NULL)
        {
            fz_fail("C01: a parsed tree cannot be printed");
        }
        if (strcmp(p2, p3) != 0)
        {
            fz_fail("C01: buffered and plain formatted print differ");
        }
        cJSON_free(p1);
        cJSON_free(p2);
        cJSON_free(p3);
        if (mode_c04 && all_finite(tree))
        {
            check_fixed_point(tree, 0);
            check_fixed_point(tree, 1);
            fz_class("fixed_point_checked");
        }
        cJSON_Delete(tree);
    }
    if (ledger_live() != 0)
    {
        fz_fail(tree ? "C01: blocks still allocated after deleting the parsed tree" : "C03: a rejected parse left allocations behind");
    }
    {
        ledger_stats_t st;
        ledger_get(&st);
        if (st.foreign_free != 0 || st.cross_free != 0)
        {
            fz_fail("C01: foreign or double free");
        }
    }

    if (placement == 0)
    {
        guard_release(buf);
    }
    else
    {
        probe_free(heap);
    }
    probe_free(acc);
    return 0;
}
