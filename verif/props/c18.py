"""C18 - Merge Patch application and generation follow RFC 7396."""
import copy
import random

from hypothesis import strategies as st

from .. import gens, model, printing, rfc
from ..core import Prop, Violation
from .c15 import utils_documents, UKEYS
from .c16 import dump_to_jv
from .c15 import EDGE_NUMBERS
from .c17 import sound_and_usable, append_everywhere, edit, EDITS, grow_both

CASE_KEYS = [b"a", b"A", b"key", b"Key", b"KEY", b"b", b"B", b"x", b"X", b"ab", b"aB", b"", b"a/b", b"~", b"\xc3\xa9", b"\xff", b"Z", b"z\x80"]


def merge_documents(max_leaves=10, min_leaves=1, nulls=True):
    leaves = [st.just(["t"]), st.just(["f"]), st.integers(-20, 20).map(lambda i: ["N", float(i)]), st.integers(-40, 40).map(lambda i: ["N", i / 8.0]),
              st.sampled_from([b"", b"x", b"str"]).map(lambda s: ["S", s]),
              # both ends of the double range: values next to each other there differ by less than any absolute tolerance
              st.sampled_from(EDGE_NUMBERS + [0.0]).map(lambda d: ["N", d])]
    if nulls:
        leaves.append(st.just(["n"]))
    keys = st.one_of(st.sampled_from(CASE_KEYS), st.sampled_from(UKEYS))
    return st.one_of(gens.shaped_documents(st.one_of(*leaves), keys, max_leaves=max_leaves, min_leaves=min_leaves, unique_keys=True),
                     gens.shaped_documents(st.one_of(*leaves), keys, max_leaves=4, unique_keys=True), st.one_of(*leaves))


def random_object(rnd, depth, nulls=True, top=True):
    """object-heavy documents with case-variant keys at every level"""
    n = rnd.randint(2, 5) if top else rnd.randint(0, 4)
    keys = rnd.sample(CASE_KEYS, n)
    members = []
    for k in keys:
        r = rnd.random()
        if depth > 0 and r < 0.55:
            v = random_object(rnd, depth - 1, nulls, False)
        elif r < 0.65:
            v = ["A", [rnd.choice([["n"], ["N", 1.0], ["O", [[b"k", ["n"]]]], ["O", [[b"name", ["S", b"x"]], [b"id", ["N", 1.0]]]],
                                   ["A", [["O", [[b"key", ["t"]]]]]]]) for _ in range(rnd.randint(0, 3))]]
        else:
            v = rnd.choice(([["n"]] if nulls else []) + [["t"], ["f"], ["N", float(rnd.randint(-9, 9))], ["N", rnd.randint(-40, 40) / 8.0], ["S", b"s"], ["S", b""],
                                                          ["N", rnd.choice(EDGE_NUMBERS + [0.0, 0.0])]])
        members.append([k, v])
    return ["O", members]


def object_documents(nulls=True):
    return st.tuples(st.integers(0, 2 ** 31), st.integers(1, 4)).map(lambda t: random_object(random.Random(t[0]), t[1], nulls))


def strip_null_members(jv):
    """remove null object members at every depth (nulls inside arrays stay)"""
    if jv[0] == "O":
        return ["O", [[k, strip_null_members(v)] for k, v in jv[1] if v[0] != "n"]]
    if jv[0] == "A":
        return ["A", [strip_null_members(v) for v in jv[1]]]
    return jv


def derive_patch(target, rnd):
    """a merge patch related to the target: subset of its members, edited values, nulls at drawn depths"""
    if target[0] != "O" or rnd.random() < 0.15:
        return rnd.choice([["n"], ["N", 5.0], ["S", b"p"], ["A", [["n"], ["N", 1.0]]], ["O", [[b"new", ["t"]]]], ["O", []]])
    out = []
    for k, v in target[1]:
        r = rnd.random()
        if r < 0.3:
            continue
        if r < 0.5:
            out.append([k, ["n"]])
        elif r < 0.75 and v[0] == "O":
            out.append([k, derive_patch(v, rnd)])
        elif r < 0.85:
            out.append([k, ["O", [[b"sub", ["n"]], [b"s2", ["N", 9.0]]]]])
        else:
            out.append([k, rnd.choice([["N", 77.0], ["S", b"changed"], ["A", []], ["f"]])])
    if rnd.random() < 0.6:
        out.append([rnd.choice([b"added", b"Added", b"a~b", b"n/m"]), rnd.choice([["t"], ["n"], ["O", [[b"x", ["n"]], [b"y", ["N", 1.0]]]]])])
    seen = set()
    uniq = []
    for k, v in out:
        if k not in seen:
            seen.add(k)
            uniq.append([k, v])
    rnd.shuffle(uniq)
    return ["O", uniq]


class C18(Prop):
    ID = "C18"
    RULE = ("(apply) pairs (target, patch): independent values, and patches derived from the target (subset of members, edited values, null "
            "members at drawn depths, nested object patches, non-object patches and targets); keys include pairs differing only in ASCII "
            "case, '', '/', '~'. Oracle: MergePatchCaseSensitive(target, patch) equals the RFC 7396 reference result (objects as sets); "
            "result and patch delete to an empty ledger; the patch is unchanged. (generate) pairs (from, to) where to has no null object "
            "member at any depth: to = from after 0-4 edits or independent. Oracle: p = GenerateMergePatchCaseSensitive(from, to); p == NULL "
            "only if from equals to; else reference-merge(from, p) and the library merging p into a duplicate of from both equal to; both "
            "inputs keep their value, are sound and still accept appends. non-trivial = pairs with an object nested >= 2 deep that differs / "
            "is patched; distinct by pair hash")
    ASSUMPTIONS = ["keys distinct per object (case-sensitively); a NULL generated patch means 'no change'"]
    REQUIRED_CLASSES = ["apply", "generate", "nested_object_patch", "case_variant_keys_nested", "null_member_in_patch", "non_object_patch", "non_object_target",
                        "generated_null_patch", "deep_objects", "patch_value_too_deep_to_copy", "second_generation_after_edits"]

    def budget(self, tier):
        return {"workers": 14, "examples": 1500 if tier == "quick" else 20000}

    def strategy(self, tier):
        docs = st.one_of(object_documents(), object_documents(), merge_documents())
        apply_c = st.fixed_dictionaries({"kind": st.just("apply"), "target": docs, "patch": docs, "derived": st.booleans(),
                                         "rseed": st.integers(0, 2 ** 31)})
        deep_c = st.fixed_dictionaries({"kind": st.just("deep"), "depth": st.sampled_from([998, 999, 1000, 1001, 1002, 1500]),
                                        "what": st.sampled_from(["remove", "add", "change"]), "rseed": st.integers(0, 2 ** 31)})
        gen_c = st.fixed_dictionaries({"kind": st.just("generate"), "from": st.one_of(object_documents(), object_documents(), merge_documents(max_leaves=10, min_leaves=2)),
                                       "other": docs,
                                       "edits": st.lists(st.sampled_from(EDITS), max_size=4), "independent": gens.chance(5),
                                       "rseed": st.integers(0, 2 ** 31)})
        # a patch value nested deeper than cJSON_Duplicate copies (CJSON_CIRCULAR_LIMIT): the merge may be refused, cleanly
        toodeep = st.fixed_dictionaries({"kind": st.just("toodeep"), "rel": st.sampled_from([-2, 0, 1, 2, 5, 500]), "pattern": st.integers(0, 7),
                                         "where": st.sampled_from(["top", "member", "nested", "nested_in_existing", "second_member"]), "cs": st.booleans()})
        return gens.weighted((78, st.one_of(apply_c, gen_c)), (2, deep_c), (1, toodeep))

    def run_case(self, lib, case, stats):
        if case["kind"] == "deep":
            self.run_deep(lib, case, stats)
        elif case["kind"] == "toodeep":
            self.run_toodeep(lib, case, stats)
        elif case["kind"] == "apply":
            self.run_apply(lib, case, stats)
        else:
            self.run_generate(lib, case, stats)
        if lib.ledger_live() != 0:
            raise Violation("blocks left allocated (%d)" % lib.ledger_live(), key="leak")
        s = lib.stats()
        if s.foreign_free or s.cross_free:
            raise Violation("foreign or double free", key="free")

    def run_toodeep(self, lib, case, stats):
        n = lib.circular_limit + case["rel"]
        chain = lib.shim_make_chain(n, case["pattern"], 1, 0)
        target = printing.build_tree(lib, ["O", [[b"k", ["O", [[b"a", ["N", 1.0]], [b"b", ["A", [["N", 1.0], ["N", 2.0]]]]]]], [b"other", ["S", b"s"]], [b"z", ["O", []]]]])
        where = case["where"]
        if where == "top":
            patch = chain
        else:
            patch = lib.cJSON_CreateObject()
            if where == "member":
                lib.cJSON_AddItemToObject(patch, b"new", chain)
            elif where == "second_member":
                lib.cJSON_AddItemToObject(patch, b"other", lib.cJSON_CreateNull())
                lib.cJSON_AddItemToObject(patch, b"z", lib.cJSON_CreateString(b"first"))
                lib.cJSON_AddItemToObject(patch, b"k", chain)
            else:
                inner = lib.cJSON_CreateObject()
                lib.cJSON_AddItemToObject(inner, b"a", lib.cJSON_CreateNumber(2.0))
                lib.cJSON_AddItemToObject(inner, b"x", chain)
                lib.cJSON_AddItemToObject(inner, b"y", lib.cJSON_CreateTrue())
                lib.cJSON_AddItemToObject(patch, b"k" if where == "nested_in_existing" else b"fresh", inner)
        stats.cls("patch_value_too_deep_to_copy")
        stats.nontriv(["toodeep", n, case["pattern"], where, case["cs"]], dict(case))
        res = (lib.cJSONUtils_MergePatchCaseSensitive if case["cs"] else lib.cJSONUtils_MergePatch)(target, patch)
        stats.inner += 1
        # (the target now belongs to the call: it comes back as the result or has been released)
        if res:
            # whether the call copies such a value or refuses it is C11's matter (and open at the limit itself); here: no memory error
            lib.cJSON_Delete(res)
        lib.cJSON_Delete(patch)
        # leak / double release are judged by the caller (ledger, sanitizer)

    def run_deep(self, lib, case, stats):
        """object chains nested about as deep as the parser's limit (built through the API); the difference sits at the bottom"""
        d, what = case["depth"], case["what"]

        def chain(leaf_members):
            node = ["O", leaf_members]
            for _ in range(d):
                node = ["O", [[b"n", node]]]
            return node
        base = [[b"keep", ["N", 1.0]], [b"drop", ["t"]]]
        if what == "remove":
            frm, to = chain(base), chain(base[:1])
        elif what == "add":
            frm, to = chain(base[:1]), chain(base)
        else:
            frm, to = chain(base), chain([[b"keep", ["N", 2.0]], [b"drop", ["t"]]])
        pf = printing.build_tree(lib, frm)
        pt = printing.build_tree(lib, to)
        patch = res = None
        try:
            patch = lib.cJSONUtils_GenerateMergePatchCaseSensitive(pf, pt)
            stats.inner += 1
            stats.cls("deep_objects")
            if not patch:
                raise Violation("NULL merge patch for documents that differ at nesting depth %d" % d, key="null-but-different")
            pj = dump_to_jv(lib, patch)
            if not model.eq_set(rfc.merge_apply(frm, pj), to, True):
                raise Violation("generated merge patch does not turn 'from' into 'to' when the difference (%s a member) is %d objects deep" % (what, d),
                                key="gen-ref-result")
            dup = lib.cJSON_Duplicate(pf, 1)
            res = lib.cJSONUtils_MergePatchCaseSensitive(dup, patch)
            if not res or not model.eq_set(dump_to_jv(lib, res), to, True):
                raise Violation("library merge of its own patch is wrong at depth %d" % d, key="gen-lib-result")
            stats.nontriv(["deep", d, what], {"depth": d, "difference": what})
        finally:
            for p in (pf, pt, patch, res):
                if p:
                    lib.cJSON_Delete(p)

    def run_apply(self, lib, case, stats):
        rnd = random.Random(case["rseed"])
        target = case["target"]
        patch = derive_patch(target, rnd) if case["derived"] else case["patch"]
        want = rfc.merge_apply(target, patch)
        arena = printing.Arena(lib)
        if case["rseed"] % 3 == 0:
            pt = printing.build_flagged(lib, target, arena, rnd)
            pp = printing.build_flagged(lib, patch, arena, rnd)
            stats.cls("ownership_flags_variant")
        else:
            pt = printing.build_tree(lib, target)
            pp = printing.build_tree(lib, patch)
        res = None
        try:
            before = lib.dump(pp)[0]
            res = lib.cJSONUtils_MergePatchCaseSensitive(pt, pp)
            pt = None   # ownership of the target passed to the call
            stats.inner += 1
            stats.cls("apply")
            ctx = "target %s patch %s" % (model.emit_text(target)[:200], model.emit_text(patch)[:200])
            if not res:
                raise Violation("MergePatchCaseSensitive returned NULL: " + ctx, key="null")
            got = dump_to_jv(lib, res)
            if not model.eq_set(got, want, True):
                raise Violation("merge result %s, RFC 7396 gives %s: %s" % (model.emit_text(got)[:200], model.emit_text(want)[:200], ctx), key="apply-result")
            sound_and_usable(lib, res, "merge result")
            if lib.dump(pp)[0] != before:
                raise Violation("the patch was modified by MergePatch: " + ctx, key="patch-modified")
            cls = set()
            if patch[0] != "O":
                cls.add("non_object_patch")
            if target[0] != "O":
                cls.add("non_object_target")
            if any(n[0] == "O" and any(v[0] == "n" for _, v in n[1]) for n in model.walk_jv(patch)):
                cls.add("null_member_in_patch")
            if patch[0] == "O" and any(v[0] == "O" and any(w[0] == "O" for _, w in v[1]) for _, v in patch[1]):
                cls.add("nested_object_patch")
            for c in cls:
                stats.cls(c)
            if "nested_object_patch" in cls or (patch[0] == "O" and any(v[0] == "O" for _, v in patch[1]) and target[0] == "O"):
                stats.nontriv(["apply", target, patch], {"target": model.emit_text(target), "patch": model.emit_text(patch), "result": model.emit_text(want)})
        finally:
            for p in (pt, pp, res):
                if p:
                    lib.cJSON_Delete(p)
            arena.close()

    def second_round(self, lib, pf, pt, rnd, stats):
        """history: the inputs of a generation (which may have reordered their members) are edited through the core API and a
        merge patch is generated again on duplicates of them; it must be judged by the documents as they are now"""
        f2, t2 = lib.cJSON_Duplicate(pf, 1), lib.cJSON_Duplicate(pt, 1)
        patch = res = None
        try:
            # the ORIGINALS are edited (they carry whatever state the first generation left behind); the duplicates stay as witnesses
            jf, jt = dump_to_jv(lib, pf), dump_to_jv(lib, pt)
            count = [0]
            saved = (copy.deepcopy(jf), copy.deepcopy(jt))
            grow_both(lib, pf, jf, rnd, 0.5, count)
            grow_both(lib, pt, jt, rnd, 0.5, count)
            if not count[0]:
                return
            stats.cls("second_generation_after_edits")
            patch = lib.cJSONUtils_GenerateMergePatchCaseSensitive(pf, pt)
            ctx = "(second generation, after appending members to the inputs of the first) from %s to %s" % (model.emit_text(jf)[:200], model.emit_text(jt)[:200])
            equal = model.eq_set(jf, jt, True)
            if not patch:
                if not equal:
                    raise Violation("GenerateMergePatchCaseSensitive returned NULL although the documents differ: " + ctx, key="null-but-different")
            else:
                pj = dump_to_jv(lib, patch)
                ctx += " patch %s" % model.emit_text(pj)[:300]
                if not model.eq_set(rfc.merge_apply(jf, pj), jt, True):
                    raise Violation("applying the generated merge patch (RFC 7396 reference) does not give 'to': " + ctx, key="gen-ref-result")
                dup = lib.cJSON_Duplicate(pf, 1)
                res = lib.cJSONUtils_MergePatchCaseSensitive(dup, patch)
                if not res or not model.eq_set(dump_to_jv(lib, res), jt, True):
                    raise Violation("the library merging its own patch does not give 'to': " + ctx, key="gen-lib-result")
            for p, j, name in ((pf, jf, "'from'"), (pt, jt, "'to'")):
                sound_and_usable(lib, p, name)
                if not model.eq_set(dump_to_jv(lib, p), j, True):
                    raise Violation("%s changed in value during the second merge patch generation: %s" % (name, ctx), key="input-modified")
            # the witnesses were not touched by any of this
            if not model.eq_set(dump_to_jv(lib, f2), saved[0], True) or not model.eq_set(dump_to_jv(lib, t2), saved[1], True):
                raise Violation("duplicates of the inputs changed while the originals were edited and diffed", key="input-modified")
        finally:
            for p in (f2, t2, patch, res):
                if p:
                    lib.cJSON_Delete(p)

    def run_generate(self, lib, case, stats):
        rnd = random.Random(case["rseed"])
        frm = case["from"]
        if case["independent"]:
            to = case["other"]
        else:
            to = copy.deepcopy(frm)
            for e in case["edits"]:
                to, _ = edit(to, e, rnd)
        to = strip_null_members(to)
        arena = printing.Arena(lib)
        if case["rseed"] % 3 == 1:
            pf = printing.build_flagged(lib, frm, arena, rnd)
            pt = printing.build_flagged(lib, to, arena, rnd)
            stats.cls("ownership_flags_variant")
        else:
            pf = printing.build_tree(lib, frm)
            pt = printing.build_tree(lib, to)
        patch = None
        dup = None
        res = None
        try:
            patch = lib.cJSONUtils_GenerateMergePatchCaseSensitive(pf, pt)
            stats.inner += 1
            stats.cls("generate")
            equal = model.eq_set(frm, to, True)
            ctx = "from %s to %s" % (model.emit_text(frm)[:200], model.emit_text(to)[:200])
            for p, j, name in ((pf, frm, "'from'"), (pt, to, "'to'")):
                sound_and_usable(lib, p, name)
                if not model.eq_set(dump_to_jv(lib, p), j, True):
                    raise Violation("%s changed in value during merge patch generation: %s" % (name, ctx), key="input-modified")
                append_everywhere(lib, p, j, name)
            dup = lib.cJSON_Duplicate(pf, 1)
            self.second_round(lib, pf, pt, rnd, stats)
            if not patch:
                stats.cls("generated_null_patch")
                if not equal:
                    raise Violation("GenerateMergePatchCaseSensitive returned NULL (no change) although the documents differ: " + ctx, key="null-but-different")
                return
            # (the first patch is judged against the documents as they were when it was generated)
            pj = dump_to_jv(lib, patch)
            ctx += " patch %s" % model.emit_text(pj)[:300]
            if any(n[0] == "O" and len(set(k for k, _ in n[1])) != len(n[1]) for n in model.walk_jv(pj)):
                raise Violation("generated merge patch has duplicate members: " + ctx, key="gen-duplicate-members")
            ref = rfc.merge_apply(frm, pj)
            if not model.eq_set(ref, to, True):
                raise Violation("applying the generated merge patch (RFC 7396 reference) gives %s, not 'to': %s" % (model.emit_text(ref)[:200], ctx), key="gen-ref-result")
            res = lib.cJSONUtils_MergePatchCaseSensitive(dup, patch)
            dup = None
            if not res or not model.eq_set(dump_to_jv(lib, res), to, True):
                raise Violation("the library merging its own patch gives %s, not 'to': %s" % (model.emit_text(dump_to_jv(lib, res))[:200] if res else "NULL", ctx),
                                key="gen-lib-result")
            nested = any(v[0] == "O" and any(w[0] == "O" for _, w in v[1]) for _, v in pj[1]) if pj[0] == "O" else False
            if nested:
                stats.cls("nested_object_patch")
            casevar = False
            for n in model.walk_jv(to):
                if n[0] == "O" and len(set(model.fold(k) for k, _ in n[1])) != len(n[1]):
                    casevar = True
            if casevar and model.depth_of(to) >= 2:
                stats.cls("case_variant_keys_nested")
            if nested or (casevar and not equal):
                stats.nontriv(["generate", frm, to], {"from": model.emit_text(frm), "to": model.emit_text(to), "patch": model.emit_text(pj)})
        finally:
            for p in (pf, pt, patch, dup, res):
                if p:
                    lib.cJSON_Delete(p)
            arena.close()


PROP = C18()
