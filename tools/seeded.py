#!/usr/bin/env python3
"""Confirm a seeded change and run checks against it.

  seeded.py confirm <dir-with-patch.diff-and-demo.c>      -> builds/tests in a scratch worktree of /repo
  seeded.py run <dir> <CHECK-ID> [<CHECK-ID> ...] [--tier quick]   -> runs checks with VERIF_REPO on a patched scratch worktree

The scratch worktree lives under /tmp and is removed afterwards; /repo itself is never modified.
"""
import json
import os
import re
import shutil
import subprocess
import sys
import time

ROOT = os.path.dirname(os.path.dirname(os.path.abspath(__file__)))


def sh(cmd, cwd=None, timeout=900, env=None):
    p = subprocess.run(cmd, shell=True, cwd=cwd, stdout=subprocess.PIPE, stderr=subprocess.STDOUT, text=True, errors="replace",
                       timeout=timeout, env=env)
    return p.returncode, p.stdout


class Scratch:
    def __init__(self, tag):
        self.dir = "/tmp/seedwt.%s.%d" % (tag, os.getpid())

    def __enter__(self):
        rc, out = sh("git -C /repo worktree add -q --detach %s HEAD" % self.dir)
        if rc:
            raise RuntimeError(out)
        return self.dir

    def __exit__(self, *a):
        sh("git -C /repo worktree remove --force %s" % self.dir)
        shutil.rmtree(self.dir, ignore_errors=True)
        sh("git -C /repo worktree prune")


def apply_patch(wt, patch):
    rc, out = sh("git -C %s apply --whitespace=nowarn %s" % (wt, os.path.abspath(patch)))
    if rc:
        rc, out = sh("git -C %s apply --3way --whitespace=nowarn %s" % (wt, os.path.abspath(patch)))
    if rc:
        rc, out2 = sh("cd %s && patch -p1 --fuzz=3 < %s" % (wt, os.path.abspath(patch)))
        out += out2
    return rc == 0, out


def build_demo(wt, demo, outbin, san):
    # demos may use includes relative to <worktree>/SEEDED/<n>/
    ddir = os.path.join(wt, "SEEDED", "x")
    if not os.path.isdir(ddir):
        os.makedirs(ddir)
        for f in os.listdir(os.path.dirname(os.path.abspath(demo))):
            src = os.path.join(os.path.dirname(os.path.abspath(demo)), f)
            if os.path.isfile(src):
                shutil.copy(src, ddir)
    demo = os.path.join(ddir, os.path.basename(demo))
    flags = "-g -O1 -I%s -w" % wt
    if san:
        flags += " -fsanitize=address,undefined -fno-sanitize-recover=all"
    src = open(demo).read()
    extra = re.findall(r"-D\w+(?:=\w+)?", "\n".join(l for l in src.splitlines()[:40] if "gcc" in l or "cc " in l or "clang" in l))
    flags += " " + " ".join(sorted(set(extra) - {"-DNO_HOOKS"} if not san else set(extra)))
    ldextra = " ".join(sorted(set(re.findall(r"-Wl,[^\s\\]+", "\n".join(src.splitlines()[:40])))))
    includes_c = re.search(r'#include\s+"[^"]*cJSON\.c"', src) is not None
    libs = "" if includes_c else " %s/cJSON.c %s/cJSON_Utils.c" % (wt, wt)
    if includes_c and not re.search(r'#include\s+"[^"]*cJSON_Utils\.c"', src) and "cJSONUtils_" in src:
        libs = " %s/cJSON_Utils.c" % wt
    cmd = "gcc %s %s%s -lm -lpthread %s -o %s" % (flags, os.path.abspath(demo), libs, ldextra, outbin)
    return sh(cmd, cwd=wt)


def run_demo(binpath, wt):
    env = dict(os.environ, ASAN_OPTIONS="detect_leaks=1:exitcode=86", UBSAN_OPTIONS="halt_on_error=1:exitcode=86")
    try:
        rc, out = sh(binpath, cwd=wt, timeout=300, env=env)
    except subprocess.TimeoutExpired:
        return 124, "timeout"
    return rc, out[-600:]


def confirm(d):
    res = {"dir": d}
    with Scratch("c") as wt:
        demo = os.path.join(d, "demo.c")
        # demo on the clean tree
        for san in (0, 1):
            rc, out = build_demo(wt, demo, wt + "/demo_clean%d" % san, san)
            if rc:
                res["demo_build_clean_san%d" % san] = out[-800:]
                continue
            res["demo_clean_san%d" % san] = run_demo(wt + "/demo_clean%d" % san, wt)[0]
        ok, out = apply_patch(wt, os.path.join(d, "patch.diff"))
        res["patch_applies"] = ok
        if not ok:
            res["patch_error"] = out[-500:]
            return res
        rc, out = sh("cmake -G Ninja -S . -B _b -DENABLE_CJSON_UTILS=On >/dev/null 2>&1 && cmake --build _b 2>&1 | tail -5 && ctest --test-dir _b 2>&1 | tail -3", cwd=wt)
        res["tests"] = out.strip().splitlines()[-3:] if out.strip() else []
        res["tests_pass"] = "100% tests passed" in out
        for san in (0, 1):
            rc, out = build_demo(wt, demo, wt + "/demo_mut%d" % san, san)
            if rc:
                res["demo_build_mut_san%d" % san] = out[-800:]
                continue
            r = run_demo(wt + "/demo_mut%d" % san, wt)
            res["demo_mut_san%d" % san] = r[0]
            res["demo_mut_out_san%d" % san] = r[1][-300:]
    return res


def run_checks(d, checks, tier):
    out = {}
    with Scratch("r") as wt:
        ok, msg = apply_patch(wt, os.path.join(d, "patch.diff"))
        if not ok:
            return {"error": "patch does not apply: " + msg[-300:]}
        for c in checks:
            t0 = time.time()
            env = dict(os.environ, VERIF_REPO=wt)
            try:
                rc, o = sh("python3-vt check.py %s --tier %s" % (c, tier), cwd=ROOT, env=env, timeout=3600)
            except subprocess.TimeoutExpired:
                rc, o = 124, "timeout"
            lines = [l for l in o.splitlines() if "VIOLATION" in l or l.startswith("[%s]" % c)]
            out[c] = {"rc": rc, "wall_s": round(time.time() - t0, 1), "lines": lines[-4:]}
    return out


def main():
    cmd = sys.argv[1]
    d = sys.argv[2]
    if cmd == "confirm":
        print(json.dumps(confirm(d), indent=1))
    else:
        tier = "quick"
        args = sys.argv[3:]
        if "--tier" in args:
            i = args.index("--tier")
            tier = args[i + 1]
            args = args[:i] + args[i + 2:]
        print(json.dumps(run_checks(d, args, tier), indent=1))


if __name__ == "__main__":
    main()
